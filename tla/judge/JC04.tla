-------------------------------- MODULE JC04 --------------------------------
(* C04 — addition, subtraction, negation: exact result and exact carry /    *)
(* overflow report.                                                         *)
(*                                                                          *)
(* Event classes (field op):                                                *)
(*   "add"   a, b [, c]    t = a + b + c         (c = carry-in, any word)   *)
(*   "sub"   a, b [, bin]  t = a - b - [bin]     (bin = borrow-in mask:     *)
(*                          all-ones = 1, zero = 0, the crate's encoding)   *)
(*   "neg"   a [, ch]      t = -a                                           *)
(*   "mac"   a, b, c, cin  t = a + b*c + cin  -> lo, hi                     *)
(*   "chain" xs, os        Checked<T> history: once none, always none       *)
(* ab / bb = precision (bits) of the receiver / of the right-hand side.     *)
(* rule = precision the documentation gives the result:                     *)
(*   "recv" the receiver's (Limb, Uint, boxed assigning forms — these       *)
(*          iterate the receiver's limbs only);                             *)
(*   "max"  the widest operand's (boxed non-assigning forms: fold_limbs     *)
(*          "widened to the same width as the widest input").               *)
(* m = how the form reports a result outside [0, 2^w):                      *)
(*   "carry"   res = t mod 2^w and the carry word  floor(t / 2^w)           *)
(*             (sub: the borrow mask, all-ones iff t < 0)                   *)
(*   "wrap"    res = t mod 2^w                                              *)
(*   "checked" none iff t outside, else res = t; an / bn = 1: that Checked  *)
(*             operand already is none, and then the result is none         *)
(*   "sat"     res = t clamped to [0, 2^w - 1]                              *)
(*   "panic"   panic iff t outside, else res = t   (operator forms)         *)
(*   "cneg"    carrying_neg: res and cf = 1 iff a = 0 (as documented)       *)
(*   "negif"   wrapping_neg_if: negated iff ch = 1, else a unchanged        *)
(* rp (boxed) = precision of the returned value = w.                        *)
(*                                                                          *)
(* Mixed boxed precision: when an assigning form ("recv") gets a right-hand *)
(* side of larger precision than the receiver, adc_assign / sbb_assign      *)
(* document a panic and the operators built on them are undocumented; the   *)
(* code checks this under debug assertions only.  There the contract        *)
(* accepts a panic, or else the exact outcome for the receiver's width (a   *)
(* wrong value, a lost carry or a missing overflow panic is rejected).      *)
EXTENDS BigNat

C04Has(e, f) == f \in DOMAIN e
C04MaxW == Max2k(64)                                   \* all-ones word

C04Wider(e) == e.rule = "recv" /\ e.bb > e.ab
C04W(e) == IF e.rule = "max" /\ e.bb > e.ab THEN e.bb ELSE e.ab

C04Rp(e, w) == C04Has(e, "rp") => e.rp = w
C04NoneIn(e) == (C04Has(e, "an") /\ e.an = 1) \/ (C04Has(e, "bn") /\ e.bn = 1)

(* outcome for a non-negative true result t at width w *)
C04Up(e, t, w) ==
  CASE e.m = "carry"   -> e.k = "ok" /\ e.res = Mod2k(t, w) /\ e.carry = Shr(t, w) /\ C04Rp(e, w)
    [] e.m = "wrap"    -> e.k = "ok" /\ e.res = Mod2k(t, w) /\ C04Rp(e, w)
    [] e.m = "checked" -> IF C04NoneIn(e) \/ ~Fits(t, w) THEN e.k = "none"
                          ELSE e.k = "ok" /\ e.res = t /\ C04Rp(e, w)
    [] e.m = "sat"     -> e.k = "ok" /\ e.res = (IF Fits(t, w) THEN t ELSE Max2k(w)) /\ C04Rp(e, w)
    [] e.m = "panic"   -> IF Fits(t, w) THEN e.k = "ok" /\ e.res = t /\ C04Rp(e, w) ELSE e.k = "panic"
    [] OTHER -> FALSE

(* (a - s) mod 2^w for a < s *)
C04WrapNeg(a, s, w) == LET r == Mod2k(Sub(s, a), w) IN IF r = Zero THEN Zero ELSE Sub(Pow2(w), r)

(* outcome for a true result a - s at width w *)
C04Down(e, a, s, w) ==
  LET neg == Lt(a, s)
      wr  == IF neg THEN C04WrapNeg(a, s, w) ELSE Mod2k(Sub(a, s), w)
      in  == ~neg /\ Fits(Sub(a, s), w)            \* true result inside [0, 2^w)
  IN CASE e.m = "carry"   -> e.k = "ok" /\ e.res = wr /\ e.carry = (IF neg THEN C04MaxW ELSE Zero) /\ C04Rp(e, w)
       [] e.m = "wrap"    -> e.k = "ok" /\ e.res = wr /\ C04Rp(e, w)
       [] e.m = "checked" -> IF C04NoneIn(e) \/ ~in THEN e.k = "none"
                             ELSE e.k = "ok" /\ e.res = Sub(a, s) /\ C04Rp(e, w)
       [] e.m = "sat"     -> e.k = "ok" /\ e.res = (IF neg THEN Zero ELSE IF in THEN Sub(a, s) ELSE Max2k(w)) /\ C04Rp(e, w)
       [] e.m = "panic"   -> IF in THEN e.k = "ok" /\ e.res = Sub(a, s) /\ C04Rp(e, w) ELSE e.k = "panic"
       [] OTHER -> FALSE

C04Add(e) ==
  LET c == IF C04Has(e, "c") THEN e.c ELSE Zero
      t == Add(Add(e.a, e.b), c)
  IN (C04Wider(e) /\ e.k = "panic") \/ C04Up(e, t, C04W(e))

C04Sub(e) ==
  LET bw == IF C04Has(e, "bin") /\ e.bin = C04MaxW THEN One ELSE Zero
      s  == Add(e.b, bw)
  IN /\ C04Has(e, "bin") => e.bin \in {Zero, C04MaxW}       \* the recorder only passes masks
     /\ (C04Wider(e) /\ e.k = "panic") \/ C04Down(e, e.a, s, C04W(e))

C04Neg(e) ==
  LET w == e.ab
      n == NegMod2k(e.a, w)
  IN /\ e.k = "ok"
     /\ C04Rp(e, w)
     /\ CASE e.m = "wrap"  -> e.res = n
          [] e.m = "cneg"  -> e.res = n /\ e.cf = (IF e.a = Zero THEN 1 ELSE 0)
          [] e.m = "negif" -> e.res = (IF e.ch = 1 THEN n ELSE e.a)
          [] OTHER -> FALSE

C04Mac(e) ==
  LET t == Add(Add(e.a, Mul(e.b, e.c)), e.cin)
  IN e.k = "ok" /\ e.lo = Mod2k(t, 64) /\ e.hi = Shr(t, 64)

(* Checked history: acc = <<is_some, value>> *)
RECURSIVE C04Fold(_, _, _, _, _)
C04Fold(xs, os, w, i, acc) ==
  IF i > Len(os) THEN acc
  ELSE LET y == xs[i + 1]
           nx == IF ~acc[1] THEN acc
                 ELSE IF os[i] = 43                                  \* '+'
                   THEN (LET t == Add(acc[2], y) IN IF Fits(t, w) THEN <<TRUE, t>> ELSE <<FALSE, Zero>>)
                   ELSE (IF Ge(acc[2], y) THEN <<TRUE, Sub(acc[2], y)>> ELSE <<FALSE, Zero>>)
       IN C04Fold(xs, os, w, i + 1, nx)

C04Chain(e) ==
  LET r == C04Fold(e.xs, e.os, e.ab, 1, <<TRUE, e.xs[1]>>)
  IN IF r[1] THEN e.k = "ok" /\ e.res = r[2] ELSE e.k = "none"

JudgeC04(e, rg) ==
  CASE e.op = "add"   -> C04Add(e)
    [] e.op = "sub"   -> C04Sub(e)
    [] e.op = "neg"   -> C04Neg(e)
    [] e.op = "mac"   -> C04Mac(e)
    [] e.op = "chain" -> C04Chain(e)
    [] OTHER -> FALSE
=============================================================================
