SPECIFICATION Spec
CONSTANTS W = 3
 L = 4
 YC = 3
INVARIANT Exact
CHECK_DEADLOCK FALSE
