SPECIFICATION Spec
CONSTANTS W = 2
 Mode = "boxed"
 SIZE = 4
 BASE = 1
 LL = 3
 RL = 4
 MAXRED = 0
 Pinned = TRUE
INVARIANT Exact
CHECK_DEADLOCK FALSE
