SPECIFICATION S0
CONSTANTS W = 64
 L = 1
 YC = 1
POSTCONDITION Post
CHECK_DEADLOCK FALSE
