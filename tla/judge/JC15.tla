-------------------------------- MODULE JC15 --------------------------------
(* C15 — all routes to the same operation give bit-identical results.       *)
(* A "grp" event is one operation on one input through all its routes:      *)
(* outs[i] = 4*v + code (0 ok(v), 1 none, 2 panic, 3 err) of route i,       *)
(* ps[i] = bits precision of a boxed result (0 otherwise).  Forms are       *)
(* labels of ONE action, so                                                 *)
(*   (1) all outcomes of the group are identical,                           *)
(*   (2) every boxed result has the documented precision pexp,              *)
(*   (3) the common outcome is the mathematical one (closed forms below).   *)
EXTENDS BigNat, Sequences

LOCAL C15Ok(v)  == Shl(v, 2)
LOCAL C15None   == One
LOCAL C15Panic  == Two

LOCAL C15Want(e) ==        \* expected encoded outcome, or <<-1>> when the class has no closed form here
  LET w == e.bits
      T == Pow2(w)
  IN CASE e.cls = "wadd"  -> C15Ok(Mod2k(Add(e.a, e.b), w))
       [] e.cls = "cadd"  -> IF Fits(Add(e.a, e.b), w) THEN C15Ok(Add(e.a, e.b)) ELSE C15None
       [] e.cls = "padd"  -> IF Fits(Add(e.a, e.b), w) THEN C15Ok(Add(e.a, e.b)) ELSE C15Panic
       [] e.cls = "wsub"  -> C15Ok(SubMod2k(e.a, e.b, w))
       [] e.cls = "csub"  -> IF Ge(e.a, e.b) THEN C15Ok(Sub(e.a, e.b)) ELSE C15None
       [] e.cls = "wmul"  -> C15Ok(Mod2k(Mul(e.a, e.b), w))
       [] e.cls = "cmul"  -> IF Fits(Mul(e.a, e.b), w) THEN C15Ok(Mul(e.a, e.b)) ELSE C15None
       [] e.cls = "pmul"  -> IF Fits(Mul(e.a, e.b), w) THEN C15Ok(Mul(e.a, e.b)) ELSE C15Panic
       [] e.cls = "mulhi" -> C15Ok(Shr(Mul(e.a, e.b), w))
       [] e.cls = "divq"  -> C15Ok(Div(e.a, e.b))
       [] e.cls = "divr"  -> C15Ok(Mod(e.a, e.b))
       [] e.cls = "shl"   -> IF e.s >= w THEN C15None ELSE C15Ok(Mod2k(Shl(e.a, e.s), w))
       [] e.cls = "shr"   -> IF e.s >= w THEN C15None ELSE C15Ok(Shr(e.a, e.s))
       [] e.cls = "wshl"  -> IF e.s >= w THEN C15Ok(Zero) ELSE C15Ok(Mod2k(Shl(e.a, e.s), w))
       [] e.cls = "bits"  -> C15Ok(FromInt(BitLen(e.a)))
       [] e.cls = "konst" -> C15Ok(e.a)                                   \* zero/one/limb "like" another value
       [] e.cls = "log2"  -> C15Ok(FromInt(BitLen(e.a) - 1))               \* floor(log2(a)), a = BITS
       [] e.cls = "tz"    -> C15Ok(FromInt(IF e.a = Zero THEN w ELSE TrailingZeros(e.a)))
       [] e.cls = "sqrt"  -> C15Ok(ISqrt(e.a))
       [] e.cls = "gcd"   -> C15Ok(Gcd(e.a, e.b))
       [] e.cls = "addmod" -> C15Ok(Mod(Add(e.a, e.b), e.m))
       [] e.cls = "submod" -> C15Ok(Mod(Sub(Add(e.a, e.m), e.b), e.m))
       [] e.cls = "mulmod" -> C15Ok(Mod(Mul(e.a, e.b), e.m))
       [] e.cls = "invmod" -> IF e.m = Zero THEN C15None ELSE              \* nothing is invertible modulo zero (13e5eda)
                              LET r == ModInv(e.a, e.m) IN
                              IF r[1] THEN (IF e.m = One THEN <<-1>> ELSE C15Ok(r[2])) ELSE C15None
       [] e.cls = "powmod" -> C15Ok(ModPow(e.a, e.b, e.m))
       [] e.cls = "powk"   -> C15Ok(ModPow(e.a, Mod2k(e.b, e.s), e.m))
       [] OTHER -> <<-1>>

LOCAL C15Grp(e) ==
  LET n == Len(e.outs)
      want == C15Want(e)
  IN /\ e.k = "ok"
     /\ n >= 2 /\ Len(e.ps) = n
     /\ \A i \in 1..n : e.outs[i] = e.outs[1]                             \* (1) routes agree
     /\ \A i \in 1..n : (e.ps[i] # Zero => e.ps[i] = FromInt(e.pexp))       \* (2) documented precision
     /\ (want # <<-1>> => e.outs[1] = want)                                \* (3) and agree with the mathematics

JudgeC15(e, rg) ==
  CASE e.op = "grp" -> C15Grp(e)
    [] OTHER -> FALSE
=============================================================================
