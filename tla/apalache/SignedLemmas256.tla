--------------------------- MODULE SignedLemmas256 ---------------------------
(***************************************************************************)
(* Two's-complement overflow rules of Int at the REAL width (N = 2^256),   *)
(* for ALL operand values, discharged by Apalache (SMT, unbounded          *)
(* integers).  x, y are the stored bit patterns in [0, N); Val(x) is the   *)
(* signed meaning.  algo/Signed.tla checks the same transcription          *)
(* exhaustively at 5, 7 and 9 bits.                                        *)
(*   src/int/add.rs 18-38   overflow = (x.msb = y.msb) /\ (x.msb # res.msb)*)
(*   src/int/sub.rs 11-29   underflow = (x.msb # y.msb) /\ (x.msb # res.msb)*)
(*   src/int/neg.rs 12-14   (x ^ MAX) + 1 with the add rule                *)
(*   src/int/sign.rs 19-27  new_from_abs_sign: abs <= MAX \/ (neg /\ abs = |MIN|)*)
(* Run: apalache-mc check --init=Init --inv=Inv --length=0 SignedLemmas256.tla*)
(***************************************************************************)
EXTENDS Integers
VARIABLES
  \* @type: Int;
  x,
  \* @type: Int;
  y,
  \* @type: Bool;
  neg
N == 115792089237316195423570985008687907853269984665640564039457584007913129639936
H == N \div 2                                   \* 2^255 = |MIN|
Init == /\ x \in Int /\ y \in Int /\ neg \in BOOLEAN
        /\ 0 <= x /\ x < N /\ 0 <= y /\ y < N
Next == UNCHANGED <<x, y, neg>>

Msb(v) == v >= H
Val(v) == IF Msb(v) THEN v - N ELSE v
InRange(z) == 0 - H <= z /\ z < H

(* overflowing_add *)
AddRes == (x + y) % N
AddOvf == (Msb(x) = Msb(y)) /\ (Msb(x) # Msb(AddRes))
AddOK == /\ AddOvf = ~InRange(Val(x) + Val(y))
         /\ (~AddOvf => Val(AddRes) = Val(x) + Val(y))
         /\ (Val(AddRes) - (Val(x) + Val(y))) % N = 0          \* wrapping form: congruent mod 2^BITS

(* checked_sub *)
SubRes == (x - y + N) % N
SubUnd == (Msb(x) # Msb(y)) /\ (Msb(x) # Msb(SubRes))
SubOK == /\ SubUnd = ~InRange(Val(x) - Val(y))
         /\ (~SubUnd => Val(SubRes) = Val(x) - Val(y))

(* overflowing_neg: (x ^ MAX) + 1 through the add rule with y = 1 *)
Cpl == N - 1 - x
NegRes == (Cpl + 1) % N
NegOvf == (Msb(Cpl) = Msb(1)) /\ (Msb(Cpl) # Msb(NegRes))
NegOK == /\ NegOvf = (x = H)                                    \* only MIN overflows
         /\ (~NegOvf => Val(NegRes) = 0 - Val(x))
         /\ (x = H => NegRes = H)                               \* wrapping_neg(MIN) = MIN

(* new_from_abs_sign(abs = x, neg): magnitude negated if neg; fits test *)
Mag == IF neg THEN (N - x) % N ELSE x
Fits == x <= H - 1 \/ (neg /\ x = H)
Want == IF neg THEN 0 - x ELSE x
AbsSignOK == /\ Fits = InRange(Want)
             /\ (Fits => Val(Mag) = Want)

(* abs_sign / abs: sign = msb, abs = wrapping_neg_if(sign) as unsigned *)
AbsOf == IF Msb(x) THEN (N - x) % N ELSE x
AbsOK == /\ AbsOf = (IF Val(x) < 0 THEN 0 - Val(x) ELSE Val(x))   \* as an unsigned value, exact also for MIN
         /\ AbsOf <= H

(* Int::lt / gt / cmp (src/int/cmp.rs 30-50): unsigned comparison of the patterns with the msb      *)
(* inverted; Uint::lt = borrow of lhs - rhs, Uint::gt = borrow of rhs - lhs, Uint::cmp: sign from    *)
(* the borrow of rhs - lhs (bit 1 of the mask), zero iff all difference words are zero.              *)
Inv1(v) == IF Msb(v) THEN v - H ELSE v + H        \* invert_msb
ULt(u, v) == u - v < 0                            \* borrow out of u.sbb(v)
SLt == ULt(Inv1(x), Inv1(y))
SGt == ULt(Inv1(y), Inv1(x))
SCmp == LET d == (Inv1(y) - Inv1(x) + N) % N
            sgn == IF ULt(Inv1(y), Inv1(x)) THEN 1 ELSE 0 - 1
        IN (IF d # 0 THEN 1 ELSE 0) * sgn
CmpOK == /\ SLt = (Val(x) < Val(y))
         /\ SGt = (Val(x) > Val(y))
         /\ SCmp = (IF Val(x) < Val(y) THEN 0 - 1 ELSE IF Val(x) = Val(y) THEN 0 ELSE 1)
         /\ 0 <= Inv1(x) /\ Inv1(x) < N
(* vacuity guard: comparing the raw patterns (no msb inversion) is wrong for mixed signs *)
RawLtWrong == ULt(x, y) = (Val(x) < Val(y))

(* vacuity guard: the add rule with the second conjunct dropped must be refuted *)
AddWrongRule == ((Msb(x) = Msb(y)) = ~InRange(Val(x) + Val(y)))

Inv == AddOK /\ SubOK /\ NegOK /\ AbsSignOK /\ AbsOK /\ CmpOK
=============================================================================
