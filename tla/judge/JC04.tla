-------------------------------- MODULE JC04 --------------------------------
(* C04 — contract of the recorded events of this property (stub).           *)
EXTENDS BigNat

JudgeC04(e, rg) == FALSE
=============================================================================
