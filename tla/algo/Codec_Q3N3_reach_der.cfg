SPECIFICATION Spec
CONSTANTS Q = 3
 NB = 3
 MaxLen = 7
 T = 1
 LS = 1
 Mut = 0
INVARIANT ReachLongDer
CHECK_DEADLOCK FALSE
