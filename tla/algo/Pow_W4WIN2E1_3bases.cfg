SPECIFICATION Spec
CONSTANTS W = 4
 WIN = 2
 EL = 1
 MMAX = 7
 NB = 3
INVARIANT Exact
CHECK_DEADLOCK FALSE
