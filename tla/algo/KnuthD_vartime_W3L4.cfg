SPECIFICATION Spec
CONSTANTS W = 3
 L = 4
 YC = 3
 Mode = "vartime"
INVARIANT Exact
INVARIANT PreHolds
INVARIANT PreHoldsEverywhere
CHECK_DEADLOCK FALSE
