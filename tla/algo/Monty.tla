------------------------------- MODULE Monty -------------------------------
(***************************************************************************)
(* Transcription of the crate's Montgomery arithmetic at word size W with  *)
(* N words (native integers: R = 2^(W*N) stays tiny).                      *)
(*   src/modular/reduction.rs              montgomery_reduction (HAC 14.32:*)
(*       row loop with meta-carry, final sub_mod_with_carry)               *)
(*   src/modular/boxed_monty_form/mul.rs   almost_montgomery_mul (CIOS,    *)
(*       reduce only on 2^(nW) overflow), mul_assign = AMM + one           *)
(*       conditional subtraction, mul_by_one (retrieve) with no reduction  *)
(* The source states the AMM error-growth properties as "discovered via    *)
(* randomized tests, not proven"; here TLC checks, for ALL odd m and ALL   *)
(* x, y < R, the facts the code relies on.                                 *)
(***************************************************************************)
EXTENDS Naturals, Sequences, TLC
CONSTANTS W, N, Mode                 \* Mode: "amm" | "reduce"
B == 2 ^ W
R == B ^ N
Limbs(v) == [i \in 1..N |-> (v \div B ^ (i - 1)) % B]
RECURSIVE ValR(_, _)
ValR(x, i) == IF i = 0 THEN 0 ELSE x[i] * B ^ (i - 1) + ValR(x, i - 1)
Val(x) == ValR(x, N)
NegInv(m0) == CHOOSE k \in 0..B - 1 : (k * m0 + 1) % B = 0      \* -m^-1 mod B (m0 odd)

(* ---- almost Montgomery multiplication (CIOS) -------------------------- *)
RECURSIVE AddMul(_, _, _, _, _)
AddMul(z, x, y, i, c) ==                                          \* add_mul_carry
  IF i > N THEN <<z, c>>
  ELSE LET t == z[i] + x[i] * y + c IN AddMul([z EXCEPT ![i] = t % B], x, y, i + 1, t \div B)
RECURSIVE AddMulShift(_, _, _, _, _)
AddMulShift(z, x, y, i, c) ==                                     \* add_mul_carry_and_shift
  IF i > N THEN <<z, c>>
  ELSE LET t == z[i] + x[i] * y + c
       IN AddMulShift(IF i = 1 THEN z ELSE [z EXCEPT ![i - 1] = t % B], x, y, i + 1, t \div B)
RECURSIVE AmmRow(_, _, _, _, _, _, _)
AmmRow(z, x, y, m, k, i, ts) ==
  IF i > N THEN <<z, ts>>
  ELSE LET a   == AddMul(z, x, y[i], 1, 0)
           s1  == ts + a[2]
           t   == (a[1][1] * k) % B
           b   == AddMulShift(a[1], m, t, 1, 0)
           s2  == (s1 % B) + b[2]
           z2  == [b[1] EXCEPT ![N] = s2 % B]
       IN AmmRow(z2, x, y, m, k, i + 1, ((s1 \div B) + (s2 \div B)) % B)
Amm(xv, yv, mv) ==
  LET m  == Limbs(mv)
      r  == AmmRow([i \in 1..N |-> 0], Limbs(xv), Limbs(yv), m, NegInv(m[1]), 1, 0)
      zv == Val(r[1])
  IN [z |-> IF r[2] % 2 = 1 THEN (zv + R - mv) % R ELSE zv,    \* conditional_sub on the overflow bit
      ts |-> r[2], raw |-> zv + r[2] * R]
CondSub(a, mv) == IF a >= mv THEN a - mv ELSE a                  \* sub_assign_mod_with_carry(0, m, m)
MulAssign(xv, yv, mv) == CondSub(Amm(xv, yv, mv).z, mv)          \* BoxedMontyMultiplier::mul_assign
Retrieve(xv, mv) == Amm(xv, 1, mv).z                             \* mul_by_one: no reduction

(* ---- Montgomery reduction, HAC 14.32 ---------------------------------- *)
RECURSIVE RedInner(_, _, _, _, _, _)
RedInner(t, m, u, j, i, carry) ==                                 \* t: 2N words (lower then upper), j = 1..N-1
  IF j >= N THEN <<t, carry>>
  ELSE LET s == t[i + j] + u * m[j + 1] + carry
       IN RedInner([t EXCEPT ![i + j] = s % B], m, u, j + 1, i, s \div B)
RECURSIVE RedRow(_, _, _, _, _)
RedRow(t, m, k, i, meta) ==                                       \* i = 1..N
  IF i > N THEN <<t, meta>>
  ELSE LET u  == (t[i] * k) % B
           c0 == (t[i] + u * m[1]) \div B
           r  == RedInner(t, m, u, 1, i, c0)
           s  == r[1][N + i] + r[2] + meta
       IN RedRow([r[1] EXCEPT ![N + i] = s % B], m, k, i + 1, s \div B)
Reduce(tv, mv) ==                                                 \* tv < R*R given as a number
  LET m   == Limbs(mv)
      t   == [i \in 1..2 * N |-> (tv \div B ^ (i - 1)) % B]
      r   == RedRow(t, m, NegInv(m[1]), 1, 0)
      up  == ValR([i \in 1..N |-> r[1][N + i]], N)
      meta == r[2]
      \* sub_mod_with_carry(meta, m, m): (up + meta*R) - m, re-add m iff that underflows
      wide == up + meta * R
  IN [z |-> IF wide >= mv THEN (wide - mv) % R ELSE up, meta |-> meta, wide |-> wide]

(* MontyParams::new / new_vartime (monty_form.rs:45-119), BoxedMontyParams::new: the derived constants.      *)
(* The remainders, the square and the inverse mod 2^W are their specifications here (they are KnuthD, Mul   *)
(* and Inv); what is checked is the derivation: one = (-m mod R) mod m, r2 = one^2 mod m,                  *)
(* r3 = montgomery_reduction(r2^2) (whose precondition r2^2 < m*R must hold), the leading-zero clamp,     *)
(* and the two uses: MontyForm::new(v) = reduction(v * r2), inversion's r3 * (aR)^-1 * R^-1.               *)
Params(mv) ==
  LET one == ((R - mv) % R) % mv
      r2  == (one * one) % mv
      red == Reduce(r2 * r2, mv)
  IN [one |-> one, r2 |-> r2, r3 |-> red.z, pre |-> r2 * r2 < mv * R, meta |-> red.meta]

(* ---- exhaustive exploration ------------------------------------------- *)
VARIABLES x, y, m, out
Init == /\ m \in {mm \in 1..R - 1 : mm % 2 = 1}
        /\ IF Mode = "params" THEN x \in 0..R - 1 /\ y = 0 ELSE x \in 0..R - 1 /\ y \in 0..R - 1
        /\ out = <<>>
Next == /\ out = <<>>
        /\ out' = IF Mode = "amm" THEN Amm(x, y, m) ELSE IF Mode = "params" THEN Params(m) ELSE Reduce(x * y, m)
        /\ UNCHANGED <<x, y, m>>
Spec == Init /\ [][Next]_<<x, y, m, out>>
Done == out # <<>>
f(v) == v \div m
RInvOK(z, v) == (z * R) % m = v % m                               \* z = v * R^-1 (mod m)

(* AMM: the documented facts *)
AmmCongruent == (Done /\ Mode = "amm") => RInvOK(out.z, x * y) /\ out.z < R /\ out.ts \in {0, 1}
AmmRawBound  == (Done /\ Mode = "amm") => out.raw < R + m
AmmClaim1    == (Done /\ Mode = "amm") => f(out.z) <= (IF f(x) < f(y) THEN f(x) ELSE f(y)) + 1
(* AMM: the facts the code relies on *)
CanonOneSub   == (Done /\ Mode = "amm" /\ x < m /\ y < m) => out.z < 2 * m /\ CondSub(out.z, m) = ((x * y * (CHOOSE q \in 0..m : (q * R) % m = 1 % m)) % m)
RetrieveCanon == (Done /\ Mode = "amm" /\ y = 1 /\ x < m) => out.z < m
SquareBigMod  == (Done /\ Mode = "amm" /\ x = y /\ m >= R \div 2) => f(out.z) <= 1
(* the source comment's claims 2 and 3 as stated are NOT invariants (see DESIGN); kept for the record *)
Claim2AsStated == (Done /\ Mode = "amm" /\ y = 1) => f(out.z) = 0
Claim3AsStated == (Done /\ Mode = "amm" /\ x = y) => f(out.z) <= 1

(* parameters: the constants are R, R^2, R^3 mod m, canonical; converting any x < R in and out is the identity mod m *)
ParamsOK == (Done /\ Mode = "params") =>
              /\ out.one = R % m /\ out.r2 = (R * R) % m /\ out.r3 = (((R * R) % m) * R) % m
              /\ out.one < m /\ out.r2 < m /\ out.r3 < m /\ out.pre
              /\ LET xm == Reduce(x * out.r2, m).z                          \* MontyForm::new(x, params)
                 IN xm = (x * R) % m /\ Reduce(xm, m).z = x % m            \* ... and retrieve

(* reduction: for canonical factors the result is the canonical representative *)
RedCanon == (Done /\ Mode = "reduce" /\ x < m /\ y < m) =>
              /\ out.z < m /\ RInvOK(out.z, x * y) /\ out.meta \in {0, 1} /\ out.wide < 2 * m
(* ... and for any x < R with y < m (MontyForm::new multiplies an arbitrary integer by R^2 mod m) *)
RedNew == (Done /\ Mode = "reduce" /\ y < m) =>
              /\ out.z < m /\ RInvOK(out.z, x * y) /\ out.meta \in {0, 1}
=============================================================================
