-------------------------------- MODULE JC10 --------------------------------
(* C10 - modular inversion and gcd: invertibility decided exactly, results   *)
(* exact.                                                                   *)
(*                                                                          *)
(* op = "inv":   a, m (modulus, m >= 1), bits (operand width).              *)
(*   sg = 1 : a is the two's-complement pattern of a signed Int of `bits`.  *)
(*   adj    : adjuster A of a SafeGcdInverter (0 <= A < m): the documented  *)
(*            result is A / a (mod m); absent = 1.                          *)
(*   For the Montgomery forms a is the integer converted into the form and  *)
(*   x the integer retrieved from the inverse ("the retrieved values        *)
(*   multiply to 1").                                                       *)
(*   Outcome: ok with x exactly when gcd(|a|, m) = 1, and then              *)
(*   a * x = A (mod m), and 0 <= x < m when m >= 2; none otherwise.         *)
(*   m = 1: the statement leaves x free (every x satisfies the congruence   *)
(*   and the range clause is stated for m >= 2 only; the crate returns      *)
(*   x = 1 = m for Uint::inv_mod(1, 1)); x must fit the width.  The         *)
(*   recorder keeps the m = 1 family small for that reason.                 *)
(*   xp (boxed) = operand precision.                                        *)
(* op = "inv2k": a, kk (0 <= kk <= bits), bits.  ok(x) exactly when kk = 0  *)
(*   or a is odd; then a * x = 1 (mod 2^kk) and x < 2^kk for kk >= 1        *)
(*   (kk = 0 is the modulus 1 again: x free).                               *)
(* op = "gcd":   a, b, bits; sa / sb = 1 : signed patterns.  ok(g) with     *)
(*   g = gcd(|a|, |b|) (gcd(0, 0) = 0); gp (boxed) = operand precision.     *)
(* A zero modulus is never recorded (it belongs to C11).                    *)
EXTENDS BigNat

C10Has(e, f) == f \in DOMAIN e
C10Flag(e, f) == C10Has(e, f) /\ e[f] = 1

\* signed reading of a pattern: [neg, mag]
C10Val(x, signed, bits) == IF signed THEN SVal(x, bits) ELSE [neg |-> FALSE, mag |-> x]

C10Inv(e) ==
  LET A   == C10Val(e.a, C10Flag(e, "sg"), e.bits)
      m   == e.m
      tgt == IF C10Has(e, "adj") THEN Mod(e.adj, m) ELSE Mod(One, m)
      cop == Gcd(A.mag, m) = One
  IN IF ~cop THEN e.k = "none"
     ELSE /\ e.k = "ok"
          /\ C10Has(e, "x")
          /\ Fits(e.x, e.bits)
          /\ Ge(m, Two) => Lt(e.x, m)
          /\ IF A.neg THEN Mod(Add(Mul(A.mag, e.x), tgt), m) = Zero       \* -|a| x = A  <=>  |a| x + A = 0
                      ELSE Mod(Mul(A.mag, e.x), m) = tgt
          /\ C10Has(e, "xp") => e.xp = e.bits

C10Inv2k(e) ==
  IF e.kk = 0 \/ IsOdd(e.a)
    THEN /\ e.k = "ok"
         /\ C10Has(e, "x")
         /\ Fits(e.x, e.bits)
         /\ e.kk >= 1 => Fits(e.x, e.kk)
         /\ Mod2k(Mul(e.a, e.x), e.kk) = Mod2k(One, e.kk)
         /\ C10Has(e, "xp") => e.xp = e.bits
    ELSE e.k = "none"

C10Gcd(e) ==
  LET A == C10Val(e.a, C10Flag(e, "sa"), e.bits)
      B == C10Val(e.b, C10Flag(e, "sb"), e.bits)
  IN /\ e.k = "ok"
     /\ C10Has(e, "g")
     /\ e.g = Gcd(A.mag, B.mag)
     /\ C10Has(e, "gp") => e.gp = e.bits

JudgeC10(e, rg) ==
  CASE e.op = "inv" ->
         /\ C10Has(e, "a") /\ C10Has(e, "m") /\ C10Has(e, "bits") /\ C10Has(e, "k")
         /\ e.m # Zero /\ Fits(e.a, e.bits) /\ Fits(e.m, e.bits)
         /\ C10Inv(e)
    [] e.op = "inv2k" ->
         /\ C10Has(e, "a") /\ C10Has(e, "kk") /\ C10Has(e, "bits") /\ C10Has(e, "k")
         /\ e.kk >= 0 /\ e.kk <= e.bits /\ Fits(e.a, e.bits)
         /\ C10Inv2k(e)
    [] e.op = "gcd" ->
         /\ C10Has(e, "a") /\ C10Has(e, "b") /\ C10Has(e, "bits") /\ C10Has(e, "k")
         /\ Fits(e.a, e.bits) /\ Fits(e.b, e.bits)
         /\ C10Gcd(e)
    [] OTHER -> FALSE
=============================================================================
