SPECIFICATION Spec
CONSTANTS W = 2
 Mode = "fixed"
 SIZE = 4
 BASE = 1
 LL = 1
 RL = 1
 MAXRED = 2
 Pinned = FALSE
INVARIANT Exact
CHECK_DEADLOCK FALSE
