"""C11 (totality).  Two parts, both decided by TLC:
  1. the hostile-argument pass (recorder c11, judge JC11): every option/result-returning operation with
     argument values whatsoever, in both build profiles;
  2. the ride-along: the recorders of all other properties are run in both profiles and every event whose
     outcome is a panic or a hang is re-validated against that property's own contract (which carries
     the documented-panic clause of each form); a rejected one is a totality violation.
"""
import json, os, shutil, time
import vcheck
from props import PROPS

RIDE = ["C02", "C03", "C04", "C05", "C06", "C07", "C08", "C09", "C10", "C12", "C13", "C14", "C16", "C17", "C18", "C19", "C20"]


def check(prop, tier, seed, spec):
    t0 = time.time()
    wdir = os.path.join(vcheck.WORK, prop)
    shutil.rmtree(wdir, ignore_errors=True)
    os.makedirs(wdir)
    vcheck.ensure_classes()
    findings = vcheck.load_findings()
    violations, known = [], {}
    totals = dict(states=0, transitions=0, events=0, shards=0, scanned=0)
    samples, per_prop = [], {}
    outcomes = {}
    for profile, label in (("release", "rel"), ("chk", "chk")):
        # part 1: hostile pass
        binpath, _ = vcheck.cargo_build("c11", profile)
        trace = os.path.join(wdir, "hostile_%s.ndjson" % label)
        vcheck.record(binpath, tier, seed, trace)
        res, n = vcheck.validate_trace(trace, wdir, "hostile_" + label, ["C11"])
        totals["events"] += n
        totals["scanned"] += n
        rej = []
        for r in res:
            totals["states"] += r["states"]; totals["transitions"] += r["transitions"]; totals["shards"] += 1
            rej += [r["base"] + i for i in r["rejects"]]
        lines = vcheck.read_lines(trace, rej)
        for ln in rej:
            e = json.loads(lines[ln])
            f = vcheck.match_finding(e, findings, "C11")
            if f:
                known[f["id"]] = known.get(f["id"], 0) + 1
            else:
                violations.append((label, "C11", ln, lines[ln]))
        with open(trace) as fh:
            for i, line in enumerate(fh):
                e = json.loads(line)
                key = e["exp"] + "/" + e["k"]
                outcomes[key] = outcomes.get(key, 0) + 1
                if len(samples) < 4 and i % 5000 == 7:
                    samples.append(e if len(line) < 1200 else {"event_prefix": line[:500]})
        vcheck.log("[C11] %s hostile pass: %d events, %d rejected" % (label, n, len(rej)))
        # part 2: ride-along over the other recorders
        for rp in RIDE:
            rspec = PROPS[rp]
            try:
                rbin, _ = vcheck.cargo_build(rspec["bin"], profile)
            except vcheck.ToolError:
                vcheck.log("[C11] %s: recorder of %s does not build; skipped" % (label, rp))
                continue
            rdir = os.path.join(wdir, rp)
            os.makedirs(rdir, exist_ok=True)
            env = rspec["pre"](rp, "quick", seed, rdir).get("env", {}) if "pre" in rspec else {}
            full = os.path.join(rdir, "trace_%s.ndjson" % label)
            vcheck.record(rbin, "quick" if tier == "quick" else tier, seed, full, extra=rspec.get("record_args", {}).get(tier), env=env)
            history = rp == "C08"
            sub = full
            count = 0
            npanic = 0
            if not history:
                sub = os.path.join(rdir, "panics_%s.ndjson" % label)
                with open(full) as fi, open(sub, "w") as fo:
                    for line in fi:
                        count += 1
                        if '"k":"panic"' in line or '"k":"hang"' in line:
                            fo.write(line)
                            npanic += 1
            else:
                with open(full) as fi:
                    for line in fi:
                        count += 1
                        npanic += ('"k":"panic"' in line or '"k":"hang"' in line)
            totals["scanned"] += count
            per_prop[rp] = per_prop.get(rp, 0) + npanic
            if npanic == 0:
                continue
            res, n = vcheck.validate_trace(sub, rdir, "ride_" + label, rspec.get("judges", [rp]))
            totals["events"] += n
            rej = []
            for r in res:
                totals["states"] += r["states"]; totals["transitions"] += r["transitions"]; totals["shards"] += 1
                rej += [r["base"] + i for i in r["rejects"]]
            lines = vcheck.read_lines(sub, rej)
            for ln in rej:
                e = json.loads(lines[ln])
                if e.get("k") not in ("panic", "hang"):
                    continue          # value violations belong to that property's own check
                f = vcheck.match_finding(e, findings, rp) or vcheck.match_finding(e, findings, "C11")
                if f:
                    known[f["id"]] = known.get(f["id"], 0) + 1
                else:
                    violations.append((label, rp, ln, lines[ln]))
        vcheck.log("[C11] %s ride-along: panic/hang outcomes re-validated per property: %s" % (label, per_prop))
    for fid, cnt in sorted(known.items()):
        f = [x for x in findings if x["id"] == fid][0]
        vcheck.log("KNOWN-FINDING: property=C11 %s [%s, %d event(s)]" % (f["what"], fid, cnt))
    rdir = os.path.join(vcheck.WORK, "replay", "C11")
    shutil.rmtree(rdir, ignore_errors=True)
    by = {}
    for label, rp, ln, line in violations:
        e = json.loads(line)
        by.setdefault((rp, e.get("form"), e.get("k")), []).append((label, ln, line))
    if by:
        os.makedirs(rdir, exist_ok=True)
    for (rp, form, k), items in sorted(by.items(), key=str):
        label, ln, line = items[0]
        path = os.path.join(rdir, "C11_%s_%s_%d.json" % (rp, label, ln))
        json.dump(dict(property="C11", source_property=rp, tier=tier, seed=seed, profile=label, line=ln, event=json.loads(line), same_class=len(items)), open(path, "w"), indent=1)
        vcheck.log("VIOLATION property=C11 replay=%s" % path)
        vcheck.log("  recorder=%s form=%s outcome=%s (%d event(s)); first: %s" % (rp, form, k, len(items), vcheck.short_event(line, 300)))
    cov = dict(states=max(1, totals["states"]), transitions=max(1, totals["transitions"]), traces_validated_against_impl=totals["shards"],
               events_validated=totals["events"], evaluations=totals["scanned"], distinct_nontrivial=sum(v for k, v in outcomes.items() if not k.endswith("/ok")) + sum(per_prop.values()),
               rule="part 1: every hostile call is one event judged by JC11 (exp in nopanic/panic/any from the doc comments); part 2: every recorded call of every other property's recorder is scanned in both profiles and each panic/hang outcome is re-validated against that property's contract; non-trivial = calls whose outcome is a panic or that carry a documented-panic expectation",
               hostile_outcomes=outcomes, ride_along_panics_per_property=per_prop, samples=samples, known_findings_matched=known, exhaustive=False)
    vcheck.write_evidence("C11", tier, seed, "model_checking", cov, spec.get("assumptions", []), time.time() - t0, len(violations))
    return 1 if violations else 0
