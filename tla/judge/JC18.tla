-------------------------------- MODULE JC18 --------------------------------
(* C18 — DER INTEGER and RLP codecs of Uint<N> are canonical and fail closed.*)
(*                                                                          *)
(* DerCanon(v), RlpCanon(v): the unique canonical encoding of a natural v.  *)
(* Encoders must produce it.  A decoder applied to a byte string s returns  *)
(*   ok(y)  only if s = Canon(y) and y < 2^bits,                            *)
(*   err    only if there is no y < 2^bits with s = Canon(y),               *)
(* and nothing else: a panic, "none" or a hang is never conforming.         *)
(* Because Canon is injective, "exists y" is decided by decoding the one    *)
(* candidate body of s and re-encoding it.                                  *)
(*                                                                          *)
(* Event classes (field op):                                                *)
(*  der_enc   x, bits, cap   -> bytes | err   encode into a cap-octet buffer *)
(*  der_len   x, bits        -> n             total encoded length           *)
(*  der_vlen  x, bits        -> n             length of the content octets   *)
(*  der_dec   src, bits      -> y | err       src is a complete TLV          *)
(*  der_ref   src, bits      -> y | err       src = magnitude octets given   *)
(*                                            to UintRef::new                *)
(*  der_val   src, tag, bits -> y | err       src = content octets, tag      *)
(*  rlp_enc   x, bits        -> bytes                                        *)
(*  rlp_dec   src, bits      -> y | err       first item of src (the rlp     *)
(*                                            crate's Rlp is a view: octets  *)
(*                                            after the item are not read)   *)
EXTENDS BigNat

Has(e, f) == f \in DOMAIN e

FromBytesBE(s) == FromDigits(s, 256)          \* value of big-endian octets, leading zeros allowed
Mag(v)         == Reverse(v)                  \* minimal big-endian magnitude; <<>> for zero
IsPrefix(p, s) == Len(p) <= Len(s) /\ SubSeq(s, 1, Len(p)) = p

--------------------------------------------------------------------------
(* DER (X.690 §8.3, §10.1): INTEGER, definite minimal length, two's        *)
(* complement content of minimal length; a non-negative value therefore    *)
(* gets one 0x00 octet in front exactly when its top bit is set.           *)
DerContent(v) == IF v = Zero THEN <<0>>
                 ELSE IF v[Len(v)] >= 128 THEN <<0>> \o Mag(v) ELSE Mag(v)
DerLen(n)     == IF n < 128 THEN <<n>>
                 ELSE IF n < 256 THEN <<129, n>>
                 ELSE <<130, n \div 256, n % 256>>                    \* n < 65536 here
DerCanon(v)   == <<2>> \o DerLen(Len(DerContent(v))) \o DerContent(v)

DerBody(s) == IF Len(s) < 2 THEN <<>>
              ELSE IF s[2] < 128 THEN SubSeq(s, 3, Len(s))
              ELSE IF s[2] = 129 /\ Len(s) >= 3 THEN SubSeq(s, 4, Len(s))
              ELSE IF s[2] = 130 /\ Len(s) >= 4 THEN SubSeq(s, 5, Len(s))
              ELSE <<>>
DerValid(s, bits) == LET v == FromBytesBE(DerBody(s)) IN Fits(v, bits) /\ DerCanon(v) = s

JudgeDerEnc(e) ==
  LET c == DerCanon(e.x)
  IN IF e.cap >= Len(c) THEN e.k = "ok" /\ e.bytes = c
     ELSE e.k = "err"                                   \* buffer too small: an error, not a truncation

JudgeDerLen(e)  == e.k = "ok" /\ e.n = Len(DerCanon(e.x))
JudgeDerVLen(e) == e.k = "ok" /\ e.n = Len(DerContent(e.x))

JudgeDerDec(e) ==
  CASE e.k = "ok"  -> Fits(e.y, e.bits) /\ DerCanon(e.y) = e.src
    [] e.k = "err" -> ~DerValid(e.src, e.bits)
    [] OTHER -> FALSE

(* UintRef::new(octets) denotes the natural FromBytesBE(octets) (it strips  *)
(* leading zeros itself); the conversion succeeds exactly when it fits.     *)
JudgeDerRef(e) ==
  LET v == FromBytesBE(e.src)
  IN IF Fits(v, e.bits) THEN e.k = "ok" /\ e.y = v
     ELSE e.k = "err"

JudgeDerVal(e) ==
  LET v     == FromBytesBE(e.src)
      valid == e.tag = 2 /\ Fits(v, e.bits) /\ DerContent(v) = e.src
  IN CASE e.k = "ok"  -> valid /\ e.y = v
       [] e.k = "err" -> ~valid
       [] OTHER -> FALSE

--------------------------------------------------------------------------
(* RLP (Ethereum yellow paper, appendix B): a scalar is the byte array of   *)
(* its minimal big-endian magnitude (empty for zero); a single octet below  *)
(* 0x80 is its own encoding; up to 55 octets: 0x80+len; longer: 0xb7+len of *)
(* len, then the minimal big-endian length.                                 *)
RlpLenBE(n) == IF n < 256 THEN <<n>> ELSE <<n \div 256, n % 256>>      \* n < 65536 here
RlpCanon(v) == LET m == Mag(v)
                   n == Len(m)
               IN IF n = 1 /\ m[1] < 128 THEN m
                  ELSE IF n <= 55 THEN <<128 + n>> \o m
                  ELSE <<183 + Len(RlpLenBE(n))>> \o RlpLenBE(n) \o m

RlpBody(s) == IF s = <<>> THEN <<>>
              ELSE IF s[1] < 128 THEN <<s[1]>>
              ELSE IF s[1] <= 183 THEN SubSeq(s, 2, Len(s))
              ELSE IF s[1] <= 191 /\ Len(s) >= 1 + (s[1] - 183) THEN SubSeq(s, 2 + (s[1] - 183), Len(s))
              ELSE <<>>
RlpValid(s, bits) == LET v == FromBytesBE(RlpBody(s)) IN Fits(v, bits) /\ RlpCanon(v) = s

JudgeRlpEnc(e) == e.k = "ok" /\ e.bytes = RlpCanon(e.x)

(* ok(y): the item at the front of src is the canonical encoding of y.      *)
(* Octets behind the item are outside the Rlp view handed to the crate's    *)
(* Decodable impl (rlp::Rlp is documented as a view onto an rlp slice and   *)
(* rlp::decode as a shortcut for trusted input; no Decodable impl of the    *)
(* rlp crate looks behind its item), so they are tolerated in both          *)
(* directions.  Set RlpTrailingTolerated to FALSE for the literal reading   *)
(* "ok(y) => src = RlpCanon(y)".  An exact canonical encoding of a fitting  *)
(* value must always be accepted.                                            *)
RlpTrailingTolerated == TRUE

JudgeRlpDec(e) ==
  CASE e.k = "ok"  -> /\ Fits(e.y, e.bits)
                      /\ IF RlpTrailingTolerated THEN IsPrefix(RlpCanon(e.y), e.src)
                                                  ELSE RlpCanon(e.y) = e.src
    [] e.k = "err" -> ~RlpValid(e.src, e.bits)
    [] OTHER -> FALSE

(* A list of scalars: the concatenated canonical items behind a list header   *)
(* that counts the payload octets (0xc0 + len up to 55, else 0xf7 + length of  *)
(* the length, then the minimal big-endian length).                            *)
RECURSIVE RlpConcat(_, _)
RlpConcat(xs, i) == IF i > Len(xs) THEN <<>> ELSE RlpCanon(xs[i]) \o RlpConcat(xs, i + 1)
RECURSIVE MinLenBE(_)
MinLenBE(n) == IF n = 0 THEN <<>> ELSE MinLenBE(n \div 256) \o <<n % 256>>
RlpListCanon(xs) == LET body == RlpConcat(xs, 1)
                        n == Len(body)
                    IN IF n <= 55 THEN <<192 + n>> \o body ELSE <<247 + Len(MinLenBE(n))>> \o MinLenBE(n) \o body
JudgeRlpList(e) == e.k = "ok" /\ e.bytes = RlpListCanon(e.xs)
(* decoding a canonical list (the recorder builds src with rlp::encode_list, whose output JudgeRlpList   *)
(* pins): the items, in order; src must itself be the canonical list of the reported items               *)
JudgeRlpListDec(e) == /\ e.k = "ok" /\ Len(e.ys) = e.cnt
                      /\ \A i \in 1..Len(e.ys) : Fits(e.ys[i], e.bits)
                      /\ e.src = RlpListCanon(e.ys)

JudgeC18(e, rg) ==
  CASE e.op = "der_enc"  -> JudgeDerEnc(e)
    [] e.op = "der_len"  -> JudgeDerLen(e)
    [] e.op = "der_vlen" -> JudgeDerVLen(e)
    [] e.op = "der_dec"  -> JudgeDerDec(e)
    [] e.op = "der_ref"  -> JudgeDerRef(e)
    [] e.op = "der_val"  -> JudgeDerVal(e)
    [] e.op = "rlp_enc"  -> JudgeRlpEnc(e)
    [] e.op = "rlp_dec"  -> JudgeRlpDec(e)
    [] e.op = "rlp_list" -> JudgeRlpList(e)
    [] e.op = "rlp_list_dec" -> JudgeRlpListDec(e)
    [] OTHER -> FALSE
=============================================================================
