SPECIFICATION Spec
CONSTANTS Q = 2
 LB = 2
 MaxLen = 5
 MaxPrec = 13
 Mut = 1
INVARIANT BEOK
INVARIANT LEOK
INVARIANT RoundTripOK
CHECK_DEADLOCK FALSE
