-------------------------------- MODULE Shift --------------------------------
(***************************************************************************)
(* Transcription of Uint's shifts at word size W with N limbs (BITS = W*N, *)
(* including widths that are not a power of two):                          *)
(*   overflowing_shl / overflowing_shr  (src/uint/shl.rs, shr.rs 27-52):   *)
(*       ladder over the bits of `shift % BITS`, each step a vartime shift  *)
(*       by 2^i that must itself be in range (`expect("shift within range")`)*)
(*   overflowing_shl_vartime / shr_vartime (59-94): limb move + carry      *)
(*   overflowing_shl_vartime_wide / shr_vartime_wide (104-131): three cases*)
(*       (ZeroFix = FALSE reproduces the pinned tree, which computed the   *)
(*       cross term with a shift by BITS - shift and so panicked for 0).   *)
(* TLC explores ALL values and ALL shift amounts 0..2*BITS+1.              *)
(***************************************************************************)
EXTENDS Integers, Sequences, TLC
CONSTANTS W, N, ZeroFix
B == 2 ^ W
BITS == W * N
R == 2 ^ BITS
RECURSIVE BitLen(_)
BitLen(v) == IF v = 0 THEN 0 ELSE 1 + BitLen(v \div 2)
Limbs(v) == [i \in 1..N |-> (v \div B ^ (i - 1)) % B]
RECURSIVE ValR(_, _)
ValR(s, i) == IF i = 0 THEN 0 ELSE s[i] * B ^ (i - 1) + ValR(s, i - 1)
Val(s) == ValR(s, N)
None == -1                                        \* ConstCtOption::none
Panic == <<-2, -2>>                               \* an inner expect("shift within range") fired

ShlVartime(v, s) ==                               \* limb move, then intra-limb shift with carry
  IF s >= BITS THEN None
  ELSE LET x  == Limbs(v)
           sn == s \div W
           rm == s % W
           mv == [i \in 1..N |-> IF i > sn THEN x[i - sn] ELSE 0]
           sh == [i \in 1..N |-> IF i <= sn THEN mv[i]
                                 ELSE ((mv[i] * 2 ^ rm) % B) + (IF i - 1 > sn THEN mv[i - 1] \div 2 ^ (W - rm) ELSE 0)]
       IN Val(IF rm = 0 THEN mv ELSE sh)
ShrVartime(v, s) ==
  IF s >= BITS THEN None
  ELSE LET x  == Limbs(v)
           sn == s \div W
           rm == s % W
           mv == [i \in 1..N |-> IF i + sn <= N THEN x[i + sn] ELSE 0]
           sh == [i \in 1..N |-> (mv[i] \div 2 ^ rm) + (IF i < N THEN (mv[i + 1] % 2 ^ rm) * 2 ^ (W - rm) ELSE 0)]
       IN Val(IF rm = 0 THEN mv ELSE sh)

ShiftBits == BitLen(BITS - 1)                     \* u32::BITS - (BITS-1).leading_zeros()
RECURSIVE Ladder(_, _, _, _)
Ladder(v, s, i, left) ==                          \* returns <<value, all steps were in range>>
  IF i >= ShiftBits THEN <<v, TRUE>>
  ELSE LET step == IF left THEN ShlVartime(v, 2 ^ i) ELSE ShrVartime(v, 2 ^ i)
           bit  == (s \div 2 ^ i) % 2 = 1
           rest == Ladder(IF bit /\ step # None THEN step ELSE v, s, i + 1, left)
       IN <<rest[1], rest[2] /\ step # None>>     \* the step is evaluated (and expected) whether or not it is selected
Overflowing(v, s, left) ==
  LET l == Ladder(v, s % BITS, 0, left)
  IN [val |-> IF s >= BITS THEN None ELSE l[1], pre |-> l[2]]

WideShl(lo, hi, s) ==                             \* <<lo', hi'>> or None; Panic when an inner expect fails
  IF s >= 2 * BITS THEN None
  ELSE IF s >= BITS THEN <<0, ShlVartime(lo, s - BITS)>>
  ELSE IF ZeroFix /\ s = 0 THEN <<lo, hi>>
  ELSE LET a == ShlVartime(lo, s)  b == ShrVartime(lo, BITS - s)  c == ShlVartime(hi, s)
       IN IF a = None \/ b = None \/ c = None THEN Panic ELSE <<a, b + c - 0>>   \* upper_lo | upper_hi (disjoint bits)
WideShr(lo, hi, s) ==
  IF s >= 2 * BITS THEN None
  ELSE IF s >= BITS THEN <<ShrVartime(hi, s - BITS), 0>>
  ELSE IF ZeroFix /\ s = 0 THEN <<lo, hi>>
  ELSE LET a == ShrVartime(hi, s)  b == ShlVartime(hi, BITS - s)  c == ShrVartime(lo, s)
       IN IF a = None \/ b = None \/ c = None THEN Panic ELSE <<c + b, a>>

VARIABLES x, y, s
Init == x \in 0..R - 1 /\ y \in {0, 1, R - 1, R \div 2, (R \div 2) - 1} /\ s \in 0..2 * BITS + 1
Next == UNCHANGED <<x, y, s>>
Spec == Init /\ [][Next]_<<x, y, s>>

VartimeOK == /\ ShlVartime(x, s) = (IF s >= BITS THEN None ELSE (x * 2 ^ s) % R)
             /\ ShrVartime(x, s) = (IF s >= BITS THEN None ELSE x \div 2 ^ s)
LadderOK  == /\ Overflowing(x, s, TRUE).val  = (IF s >= BITS THEN None ELSE (x * 2 ^ s) % R)
             /\ Overflowing(x, s, FALSE).val = (IF s >= BITS THEN None ELSE x \div 2 ^ s)
             /\ Overflowing(x, s, TRUE).pre /\ Overflowing(x, s, FALSE).pre       \* every ladder step is in range
WantShl == IF s >= 2 * BITS THEN None
           ELSE IF s >= BITS THEN <<0, (x * (2 ^ (s - BITS))) % R>>
           ELSE <<(x * (2 ^ s)) % R, (((y * (2 ^ s)) % R) + (x \div (2 ^ (BITS - s)))) % R>>
WantShr == IF s >= 2 * BITS THEN None
           ELSE IF s >= BITS THEN <<y \div (2 ^ (s - BITS)), 0>>
           ELSE <<((x \div (2 ^ s)) + ((y % (2 ^ s)) * (2 ^ (BITS - s)))) % R, y \div (2 ^ s)>>
WideOK    == WideShl(x, y, s) = WantShl /\ WideShr(x, y, s) = WantShr
=============================================================================
