//! C18 recorder: DER INTEGER and RLP codecs of `Uint<N>`.
//!
//! Event classes (field `op`):
//!   der_enc   x, bits, cap        -> bytes | err     Encode::encode_to_slice into a buffer of cap octets
//!   der_len   x, bits             -> n               Encode::encoded_len
//!   der_vlen  x, bits             -> n               EncodeValue::value_len
//!   der_dec   src, bits           -> y | err         a complete TLV: Decode::from_der, TryFrom<AnyRef>, ...
//!   der_ref   src, bits           -> y | err         UintRef::new(magnitude octets) -> Uint::try_from
//!   der_val   src, tag, bits      -> y | err         AnyRef::new(tag, content octets) -> Uint::try_from
//!   rlp_enc   x, bits             -> bytes           rlp::encode, RlpStream::append, Encodable::rlp_bytes
//!   rlp_dec   src, bits           -> y | err         rlp::decode, Rlp::as_val, Decodable::decode
//!   rlp_list  xs, bits            -> bytes           RlpStream::new_list / begin_unbounded_list / append_list, rlp::encode_list
//!   rlp_list_dec src, cnt, bits   -> ys | err        rlp::decode_list, Rlp::as_list, Rlp::at(i).as_val on a canonical list
//! Decoders run under catch_unwind (a panic is an outcome, and never an acceptable one here).
use der::asn1::{AnyRef, UintRef};
use der::{Decode, Encode, EncodeValue, Reader, SliceReader, Tag};
use vh::cb::{ArrayEncoding, Encoding, Limb, Uint};
use vh::*;

fn raw<const N: usize>(x: &Uint<N>) -> Vec<u64> {
    x.as_limbs().iter().map(|l| l.0).collect()
}
fn mk<const N: usize>(v: &[u64]) -> Uint<N> {
    let mut l = [Limb::ZERO; N];
    for i in 0..N {
        l[i] = Limb(v[i]);
    }
    Uint::new(l)
}

/// big-endian magnitude octets -> little-endian words (n limbs; the caller guarantees it fits)
fn words_of_be(mag: &[u8], n: usize) -> Vec<u64> {
    let mut v = vec![0u64; n];
    for (i, b) in mag.iter().rev().enumerate() {
        if i / 8 < n {
            v[i / 8] |= (*b as u64) << (8 * (i % 8));
        }
    }
    v
}

/// a minimal big-endian magnitude of exactly `len` octets (len >= 1) with the given top octet class
fn magnitude(r: &mut Rng, len: usize, top: u8) -> Vec<u8> {
    let mut m: Vec<u8> = match r.below(4) {
        0 => vec![0; len],
        1 => vec![0xff; len],
        _ => (0..len).map(|_| r.next() as u8).collect(),
    };
    m[0] = if top == 0 { 1 } else { top };
    m
}

fn magp(r: &mut Rng, len: usize, tops: &[u8]) -> Vec<u8> {
    let t = r.pick(tops);
    magnitude(r, len, t)
}

const TOPS: &[u8] = &[0x01, 0x7f, 0x80, 0xff, 0x81, 0x7e, 0x40];

/// values of an n-limb type: 0, 1, boundary top octets at every interesting length, 2^BITS - 1
fn values(r: &mut Rng, n: usize, count: usize) -> Vec<Vec<u64>> {
    let w = 8 * n;
    let mut out = vec![vec![0u64; n], fit(vec![1], n), fit(vec![0x7f], n), fit(vec![0x80], n), fit(vec![0xff], n), fit(vec![0x100], n), vec![MAX; n]];
    let mut lens = vec![1usize, 2, w - 1, w, w / 2, 55.min(w), 56.min(w), 57.min(w), 127.min(w), 128.min(w), 129.min(w), 255.min(w), 256.min(w), 257.min(w)];
    lens.push(r.range(1, w));
    lens.sort();
    lens.dedup();
    for len in lens {
        if len == 0 { continue; }
        for &t in TOPS.iter().take(4) {
            out.push(words_of_be(&magnitude(r, len, t), n));
        }
    }
    while out.len() < count {
        let len = r.range(1, w);
        let t = r.pick(TOPS);
        out.push(words_of_be(&magnitude(r, len, t), n));
    }
    out.push(nat(r, n));
    out
}

fn der_len_octets(n: usize, form: usize) -> Vec<u8> {
    match form {
        // minimal definite form
        0 => if n < 128 { vec![n as u8] } else if n < 256 { vec![0x81, n as u8] } else { vec![0x82, (n >> 8) as u8, n as u8] },
        // non-minimal long forms
        1 => if n < 256 { vec![0x81, n as u8] } else { vec![0x83, 0, (n >> 8) as u8, n as u8] },
        2 => vec![0x82, (n >> 8) as u8, n as u8],
        3 => vec![0x84, 0, 0, (n >> 8) as u8, n as u8],
        // indefinite
        _ => vec![0x80],
    }
}

fn tlv(tag: u8, content: &[u8], form: usize) -> Vec<u8> {
    let mut v = vec![tag];
    v.extend(der_len_octets(content.len(), form));
    v.extend_from_slice(content);
    v
}

/// DER content octets of interest for a type of w octets: (content, is it the canonical content of a fitting value)
fn der_contents(r: &mut Rng, w: usize) -> Vec<Vec<u8>> {
    let mut out: Vec<Vec<u8>> = Vec::new();
    let canon = |m: Vec<u8>| -> Vec<u8> { if m[0] >= 0x80 { let mut c = vec![0u8]; c.extend(m); c } else { m } };
    // canonical, fitting
    out.push(vec![0]);
    for len in [1usize, 2, w - 1, w] {
        if len == 0 { continue; }
        for &t in &[0x01u8, 0x7f, 0x80, 0xff] {
            out.push(canon(magnitude(r, len, t)));
        }
    }
    let rl = r.range(1, w);
    out.push(canon(magp(r, rl, TOPS)));
    // canonical encodings of values that do not fit: every length just above the capacity
    for len in [w + 1, w + 2, w + 3, w + 4] {
        for &t in &[0x01u8, 0x7f, 0x80, 0xff] {
            out.push(canon(magnitude(r, len, t)));
        }
    }
    // 2^BITS exactly
    { let mut m = vec![0u8; w + 1]; m[0] = 1; out.push(m); }
    // superfluous leading zero octets
    for len in [1usize, 2, w - 1, w, w + 1] {
        if len == 0 { continue; }
        let mut c = vec![0u8];
        c.extend(magp(r, len, &[0x01u8, 0x7f, 0x00]));
        out.push(c);
        let mut c = vec![0u8, 0];
        c.extend(magp(r, len, &[0x80u8, 0xff, 0x01]));
        out.push(c);
    }
    out.push(vec![0; w]);
    out.push(vec![0; w + 1]);
    out.push(vec![0, 0]);
    // negative numbers: top bit set without the leading zero
    for len in [1usize, 2, w - 1, w, w + 1, w + 2] {
        if len == 0 { continue; }
        out.push(magp(r, len, &[0x80u8, 0xff, 0x81]));
    }
    out.push(vec![0xff; w]);
    out.push(vec![0xff, 0xff]);
    // empty content
    out.push(vec![]);
    out
}

fn der_inputs(r: &mut Rng, w: usize) -> Vec<Vec<u8>> {
    let mut out = Vec::new();
    for c in der_contents(r, w) {
        out.push(tlv(2, &c, 0));
        match r.below(12) {
            0 => out.push(tlv(2, &c, 1)),
            1 => out.push(tlv(2, &c, 2)),
            2 => out.push(tlv(2, &c, 3)),
            3 => out.push(tlv(2, &c, 4)),
            4 => { let mut t = tlv(2, &c, 0); t.push(r.pick(&[0u8, 0xff, 2])); out.push(t); }                // trailing octet
            5 => { let mut t = tlv(2, &c, 0); let k = r.range(1, 3.min(t.len())); t.truncate(t.len() - k); out.push(t); } // truncated
            6 => out.push(tlv(r.pick(&[0x03u8, 0x04, 0x0a, 0x22, 0x82, 0x30, 0x01, 0x05, 0x42, 0x00, 0xff, 0x1f]), &c, 0)), // wrong tag
            7 => { let mut t = tlv(2, &c, 0); if t.len() > 2 && t[1] < 0x7f { t[1] += 1; } out.push(t); }         // length one too large
            8 => { let mut t = tlv(2, &c, 0); if t.len() > 2 && t[1] > 0 && t[1] < 0x80 { t[1] -= 1; } out.push(t); } // length one too small
            _ => {}
        }
    }
    out.push(vec![]);
    out.push(vec![2]);
    out.push(vec![2, 0x81]);
    out.push(vec![2, 0x82, 0]);
    out.push(vec![2, 0x80, 0, 0]);
    out.push(vec![2, 0xff]);
    out.push(vec![2, 0x84, 0xff, 0xff, 0xff, 0xff]);
    out.push(vec![2, 0x88, 0, 0, 0, 0, 0, 0, 0, 1, 1]);
    for _ in 0..6 {
        let len = r.range(0, w + 6);
        let mut b: Vec<u8> = (0..len).map(|_| r.next() as u8).collect();
        if !b.is_empty() { b[0] = 2; }
        if b.len() > 1 && r.coin() { b[1] = (b.len() - 2).min(127) as u8; }
        out.push(b);
    }
    out
}

/// Exhaustive over a boundary alphabet: every octet string of length <= 3, and every TLV `02 len c0 c1 .. cL`
/// with L in 0..=w+2 whose first two content octets, last content octet and length octet variation are drawn
/// from the alphabet (the middle octets are constant), so that each canonicality rule meets each length.
const ALPHA: [u8; 8] = [0x00, 0x01, 0x02, 0x7f, 0x80, 0x81, 0x82, 0xff];
fn der_exhaustive(w: usize) -> Vec<Vec<u8>> {
    let mut out: Vec<Vec<u8>> = vec![vec![]];
    for a in ALPHA { out.push(vec![a]); for b in ALPHA { out.push(vec![a, b]); for c in ALPHA { out.push(vec![a, b, c]); } } }
    for len in 0..=w + 2 {
        for &c0 in &ALPHA { for &c1 in &ALPHA { for &cl in &[0x00u8, 0x01, 0x80, 0xff] { for &mid in &[0x00u8, 0xa5] {
            let mut c = vec![mid; len];
            if len >= 1 { c[0] = c0; }
            if len >= 2 { c[1] = c1; }
            if len >= 3 { c[len - 1] = cl; }
            if (len < 3 && (cl != 0 || mid != 0)) || (len < 2 && c1 != 0) || (len < 1 && c0 != 0) || (len < 4 && mid != 0) { continue; }
            out.push(tlv(2, &c, 0));
            if c0 == 0x00 && c1 == 0x80 && cl == 0x01 { for form in 1..=4 { out.push(tlv(2, &c, form)); } }     // every non-minimal length form
        } } } }
    }
    out
}
fn rlp_exhaustive(w: usize) -> Vec<Vec<u8>> {
    let mut out: Vec<Vec<u8>> = vec![vec![]];
    for a in 0..=255u8 { out.push(vec![a]); }                                  // every single octet
    for a in [0x80u8, 0x81, 0x82, 0xb7, 0xb8, 0xb9, 0xc0, 0xc1, 0xf8] { for b in ALPHA { out.push(vec![a, b]); for c in ALPHA { out.push(vec![a, b, c]); } } }
    for len in 1..=w + 2 {
        for &c0 in &ALPHA { for &c1 in &[0x00u8, 0x01, 0x80, 0xff] { for &mid in &[0x00u8, 0xa5] {
            let mut c = vec![mid; len];
            c[0] = c0;
            if len >= 2 { c[1] = c1; }
            if (len < 2 && c1 != 0) || (len < 3 && mid != 0) { continue; }
            for form in 0..=3 { out.push(rlp_item(&c, form)); }
        } } }
    }
    out
}

fn derr(e: der::Error) -> O {
    let _ = e;
    O::err("der")
}

fn der_width<const N: usize>(cx: &mut Cx, nvals: usize, reps: usize)
where
    Uint<N>: ArrayEncoding,
{
    let bits = 64 * N as i64;
    let w = 8 * N;
    // encoders
    for v in values(&mut cx.rng, N, nvals) {
        let x = mk::<N>(&v);
        // (a panic of the code under test is data for the recorded calls below, never a crash of the recorder)
        let need = std::panic::catch_unwind(std::panic::AssertUnwindSafe(|| { let mut b = vec![0u8; w + 8]; x.encode_to_slice(&mut b).map(|s| s.len()).unwrap_or(w + 8) })).unwrap_or(w + 8);
        let mut caps = vec![w + 8, need];
        if need > 0 { caps.push(need - 1); }
        caps.push(cx.rng.below(need + 1));
        for cap in caps {
            cx.call(Ev::new("der_enc", "uint.Encode.encode_to_slice").n("x", &v).i("bits", bits).i("cap", cap as i64), || {
                let mut b = vec![0xa5u8; cap];
                match x.encode_to_slice(&mut b) { Ok(s) => O::ok().b("bytes", s), Err(e) => derr(e) }
            });
        }
        cx.call(Ev::new("der_len", "uint.Encode.encoded_len").n("x", &v).i("bits", bits), || match x.encoded_len() { Ok(l) => O::ok().i("n", u32::from(l) as i64), Err(e) => derr(e) });
        cx.call(Ev::new("der_vlen", "uint.EncodeValue.value_len").n("x", &v).i("bits", bits), || match x.value_len() { Ok(l) => O::ok().i("n", u32::from(l) as i64), Err(e) => derr(e) });
    }
    // decoders
    for rep in 0..reps + (w <= 24) as usize {
        let inputs = if rep == reps { der_exhaustive(w) } else { der_inputs(&mut cx.rng, w) };
        for src in inputs {
            let ev = |form: &str| Ev::new("der_dec", form).b("src", &src).i("bits", bits);
            cx.call(ev("uint.Decode.from_der"), || match Uint::<N>::from_der(&src) { Ok(y) => O::ok().n("y", &raw(&y)), Err(e) => derr(e) });
            cx.call(ev("uint.TryFrom<AnyRef>"), || match AnyRef::from_der(&src).and_then(Uint::<N>::try_from) { Ok(y) => O::ok().n("y", &raw(&y)), Err(e) => derr(e) });
            cx.call(ev("uint.TryFrom<UintRef>.from_der"), || match UintRef::from_der(&src).and_then(Uint::<N>::try_from) { Ok(y) => O::ok().n("y", &raw(&y)), Err(e) => derr(e) });
            cx.call(ev("uint.Decode.decode+finish"), || {
                let r = SliceReader::new(&src).and_then(|mut rd| { let y = Uint::<N>::decode(&mut rd)?; rd.finish(y) });
                match r { Ok(y) => O::ok().n("y", &raw(&y)), Err(e) => derr(e) }
            });
        }
        // the reference type built directly from magnitude octets (leading zeros are stripped by UintRef::new)
        let mut mags: Vec<Vec<u8>> = vec![vec![], vec![0], vec![0; w], vec![0; w + 3], vec![0xff; w], vec![0xff; w + 1], { let mut m = vec![0u8; w + 1]; m[0] = 1; m }];
        for len in [1usize, w - 1, w, w + 1, w + 2, w + 4, cx.rng.range(1, w + 4)] {
            if len == 0 { continue; }
            let t = cx.rng.pick(TOPS);
            mags.push(magnitude(&mut cx.rng, len, t));
            let mut z = vec![0u8; cx.rng.range(1, 3)];
            z.extend(magnitude(&mut cx.rng, len, t));
            mags.push(z);
        }
        for src in mags {
            cx.call(Ev::new("der_ref", "uint.TryFrom<UintRef>.new").b("src", &src).i("bits", bits), || match UintRef::new(&src).and_then(Uint::<N>::try_from) { Ok(y) => O::ok().n("y", &raw(&y)), Err(e) => derr(e) });
        }
        // AnyRef built from a tag and content octets
        for c in der_contents(&mut cx.rng, w) {
            let tag = if cx.rng.chance(5, 6) { Tag::Integer } else { cx.rng.pick(&[Tag::OctetString, Tag::BitString, Tag::Boolean, Tag::Null, Tag::Enumerated, Tag::Sequence, Tag::Utf8String]) };
            cx.call(Ev::new("der_val", "uint.TryFrom<AnyRef>.new").b("src", &c).i("tag", tag.octet() as i64).i("bits", bits), || match AnyRef::new(tag, &c).and_then(Uint::<N>::try_from) { Ok(y) => O::ok().n("y", &raw(&y)), Err(e) => derr(e) });
        }
    }
}

// ------------------------------------------------------------------------------------------------
// RLP

fn rlp_item(payload: &[u8], form: usize) -> Vec<u8> {
    let n = payload.len();
    let be = |n: usize, k: usize| -> Vec<u8> { (0..k).rev().map(|i| (n >> (8 * i)) as u8).collect() };
    let minlen = |n: usize| if n < 256 { 1 } else if n < 65536 { 2 } else { 3 };
    let mut v = Vec::new();
    match form {
        // canonical header for this payload length (the single-octet rule is the caller's business)
        0 => { if n <= 55 { v.push(0x80 + n as u8) } else { let k = minlen(n); v.push(0xb7 + k as u8); v.extend(be(n, k)); } }
        // long form although the short form applies / non-minimal length of length
        1 => { let k = minlen(n); v.push(0xb7 + k as u8); v.extend(be(n, k)); }
        2 => { let k = minlen(n) + 1; v.push(0xb7 + k as u8); v.extend(be(n, k)); }
        // list headers
        3 => { if n <= 55 { v.push(0xc0 + n as u8) } else { let k = minlen(n); v.push(0xf7 + k as u8); v.extend(be(n, k)); } }
        _ => {}
    }
    v.extend_from_slice(payload);
    v
}

fn rlp_inputs(r: &mut Rng, w: usize) -> Vec<Vec<u8>> {
    let mut out: Vec<Vec<u8>> = Vec::new();
    // canonical encodings of fitting values, every interesting payload length
    out.push(vec![0x80]);
    for b in [0x00u8, 0x01, 0x7f] { out.push(vec![b]); }
    out.push(vec![r.range(1, 0x7f) as u8]);
    for b in [0x80u8, 0xff, 0x00, 0x01, 0x7f] { out.push(vec![0x81, b]); }
    let mut lens = vec![1usize, 2, w - 1, w, w + 1, w + 2, w + 3, w + 4, 55, 56, 57, 255, 256, 257];
    lens.push(r.range(1, w + 4));
    lens.retain(|l| *l >= 1 && *l <= w + 4);
    lens.sort();
    lens.dedup();
    for len in lens {
        for &t in &[0x01u8, 0x7f, 0x80, 0xff] {
            if len == 1 && t < 0x80 { continue; }
            let m = magnitude(r, len, t);
            out.push(rlp_item(&m, 0));
            match r.below(10) {
                0 | 1 => out.push(rlp_item(&m, 1)),                                   // long form for a short payload
                2 => out.push(rlp_item(&m, 2)),                                       // length with a leading zero octet
                3 => { let mut z = vec![0u8]; z.extend(&m); out.push(rlp_item(&z, 0)); } // leading zero in the payload
                4 => { let mut t = rlp_item(&m, 0); t.push(r.pick(&[0u8, 0x80, 0xff])); out.push(t); } // trailing octet
                5 => { let mut t = rlp_item(&m, 0); t.pop(); out.push(t); }               // truncated payload
                6 => out.push(rlp_item(&m, 3)),                                       // a list
                7 => { let mut z = vec![0u8, 0]; z.extend(&m); out.push(rlp_item(&z, 1)); }
                _ => {}
            }
        }
    }
    // zero-valued payloads
    out.push(rlp_item(&vec![0u8; w], 0));
    out.push(rlp_item(&vec![0u8; 2], 0));
    out.push(rlp_item(&[], 1));
    // headers only
    out.push(vec![]);
    out.push(vec![0xb8]);
    out.push(vec![0xb9, 0x01]);
    out.push(vec![0xbf, 0xff, 0xff, 0xff, 0xff, 0xff, 0xff, 0xff, 0xff]);
    out.push(vec![0xbf, 0x80, 0, 0, 0, 0, 0, 0, 0, 1]);
    out.push(vec![0xb7]);
    out.push(vec![0xc0]);
    out.push(vec![0xc1, 0x01]);
    out.push(vec![0xf8, 0x01, 0x01]);
    out.push(vec![0xff]);
    for _ in 0..6 {
        let len = r.range(1, w + 6);
        out.push((0..len).map(|_| r.next() as u8).collect());
    }
    out
}

fn rerr(e: rlp::DecoderError) -> O {
    let _ = e;
    O::err("rlp")
}

fn rlp_enc_width<const N: usize>(cx: &mut Cx, nvals: usize)
where
    Uint<N>: Encoding,
{
    let bits = 64 * N as i64;
    for v in values(&mut cx.rng, N, nvals) {
        let x = mk::<N>(&v);
        let ev = |form: &str| Ev::new("rlp_enc", form).n("x", &v).i("bits", bits);
        cx.call(ev("rlp::encode"), || O::ok().b("bytes", &rlp::encode(&x)));
        cx.call(ev("RlpStream.append"), || { let mut s = rlp::RlpStream::new(); s.append(&x); O::ok().b("bytes", &s.out()) });
        cx.call(ev("Encodable.rlp_bytes"), || O::ok().b("bytes", &rlp::Encodable::rlp_bytes(&x)));
    }
    // lists of integers: every item is the canonical item, the list header counts them once
    let pool = values(&mut cx.rng, N, nvals.min(12));
    for cnt in [0usize, 1, 2, 3, 5, 9] {
        let xs: Vec<Vec<u64>> = (0..cnt).map(|j| pool[(j * 7 + cnt) % pool.len()].clone()).collect();
        let us: Vec<Uint<N>> = xs.iter().map(|v| mk::<N>(v)).collect();
        let ev = |form: &str| Ev::new("rlp_list", form).nl("xs", &xs).i("bits", bits);
        cx.call(ev("RlpStream.new_list+append"), || { let mut s = rlp::RlpStream::new_list(us.len()); for u in &us { s.append(u); } O::ok().b("bytes", &s.out()) });
        cx.call(ev("RlpStream.begin_unbounded_list"), || { let mut s = rlp::RlpStream::new(); s.begin_unbounded_list(); for u in &us { s.append(u); } s.finalize_unbounded_list(); O::ok().b("bytes", &s.out()) });
        cx.call(ev("RlpStream.append_list"), || { let mut s = rlp::RlpStream::new(); s.append_list(&us); O::ok().b("bytes", &s.out()) });
        cx.call(ev("rlp::encode_list"), || O::ok().b("bytes", &rlp::encode_list(&us)));
    }
}

/// lists decode item by item (widths with `Decodable` only)
fn rlp_list_dec_width<const N: usize>(cx: &mut Cx, nvals: usize)
where
    Uint<N>: Encoding,
    <Uint<N> as Encoding>::Repr: Default,
{
    let bits = 64 * N as i64;
    let pool = values(&mut cx.rng, N, nvals.min(12));
    for cnt in [0usize, 1, 2, 3, 5, 9] {
        let xs: Vec<Vec<u64>> = (0..cnt).map(|j| pool[(j * 5 + cnt) % pool.len()].clone()).collect();
        let us: Vec<Uint<N>> = xs.iter().map(|v| mk::<N>(v)).collect();
        let src = rlp::encode_list(&us).to_vec();
        let ev = |form: &str| Ev::new("rlp_list_dec", form).b("src", &src).i("bits", bits).i("cnt", cnt as i64);
        let out = |r: Result<Vec<Uint<N>>, rlp::DecoderError>| match r { Ok(ys) => O::ok().nl("ys", &ys.iter().map(|y| raw(y)).collect::<Vec<_>>()), Err(e) => rerr(e) };
        cx.call(ev("rlp::decode_list"), || out(Ok(rlp::decode_list::<Uint<N>>(&src))));
        cx.call(ev("Rlp.as_list"), || out(rlp::Rlp::new(&src).as_list::<Uint<N>>()));
        cx.call(ev("Rlp.at.as_val"), || { let r = rlp::Rlp::new(&src); out((0..cnt).map(|j| r.at(j).and_then(|it| it.as_val::<Uint<N>>())).collect()) });
    }
}

/// `rlp::Decodable` needs `Repr: Default`, which arrays have up to 32 octets only: U64, U128, U192, U256
fn rlp_dec_width<const N: usize>(cx: &mut Cx, reps: usize)
where
    Uint<N>: Encoding,
    <Uint<N> as Encoding>::Repr: Default,
{
    let bits = 64 * N as i64;
    let w = 8 * N;
    for rep in 0..reps + 1 {
        let inputs = if rep == reps { rlp_exhaustive(w) } else { rlp_inputs(&mut cx.rng, w) };
        for src in inputs {
            let ev = |form: &str| Ev::new("rlp_dec", form).b("src", &src).i("bits", bits);
            cx.call(ev("rlp::decode"), || match rlp::decode::<Uint<N>>(&src) { Ok(y) => O::ok().n("y", &raw(&y)), Err(e) => rerr(e) });
            cx.call(ev("Rlp.as_val"), || match rlp::Rlp::new(&src).as_val::<Uint<N>>() { Ok(y) => O::ok().n("y", &raw(&y)), Err(e) => rerr(e) });
            cx.call(ev("Decodable.decode"), || match <Uint<N> as rlp::Decodable>::decode(&rlp::Rlp::new(&src)) { Ok(y) => O::ok().n("y", &raw(&y)), Err(e) => rerr(e) });
        }
    }
}

fn main() {
    let mut cx = Cx::from_args("C18");
    let s = cx.scale;
    if cx.want("der") {
        der_width::<1>(&mut cx, 40, 2 * s);      // U64
        der_width::<2>(&mut cx, 40, 2 * s);      // U128
        der_width::<3>(&mut cx, 30, s);          // U192
        der_width::<4>(&mut cx, 40, 2 * s);      // U256
        der_width::<6>(&mut cx, 30, s);          // U384
        der_width::<7>(&mut cx, 30, s);          // U448
        der_width::<8>(&mut cx, 30, s);          // U512
        der_width::<9>(&mut cx, 30, s);          // U576
        der_width::<12>(&mut cx, 30, s);         // U768
        der_width::<13>(&mut cx, 20, s);         // U832
        der_width::<14>(&mut cx, 20, s);         // U896
        der_width::<16>(&mut cx, 30, s);         // U1024 (content length crosses 127/128)
        der_width::<24>(&mut cx, 20, s);         // U1536
        der_width::<28>(&mut cx, 20, s);         // U1792
        der_width::<32>(&mut cx, 30, s);         // U2048 (content length crosses 255/256)
        der_width::<48>(&mut cx, 12, s);         // U3072
        der_width::<56>(&mut cx, 12, s);         // U3584
        der_width::<64>(&mut cx, 12, s);         // U4096
        der_width::<96>(&mut cx, 8, s);          // U6144
        der_width::<128>(&mut cx, 8, s);         // U8192
    }
    if cx.want("rlp") {
        rlp_enc_width::<1>(&mut cx, 40 * s);
        rlp_enc_width::<2>(&mut cx, 40 * s);
        rlp_enc_width::<3>(&mut cx, 30 * s);
        rlp_enc_width::<4>(&mut cx, 40 * s);
        rlp_enc_width::<5>(&mut cx, 30 * s);
        rlp_enc_width::<6>(&mut cx, 30 * s);
        rlp_enc_width::<7>(&mut cx, 30 * s);     // 56 octets: the long form begins at the full width
        rlp_enc_width::<8>(&mut cx, 30 * s);
        rlp_enc_width::<9>(&mut cx, 20 * s);
        rlp_enc_width::<10>(&mut cx, 20 * s);
        rlp_enc_width::<12>(&mut cx, 20 * s);
        rlp_enc_width::<16>(&mut cx, 20 * s);
        rlp_enc_width::<24>(&mut cx, 12 * s);
        rlp_enc_width::<32>(&mut cx, 20 * s);    // 256 octets: two length octets at the full width
        rlp_enc_width::<33>(&mut cx, 12 * s);    // U2112 (extra-sizes)
        rlp_enc_width::<48>(&mut cx, 8 * s);
        rlp_enc_width::<64>(&mut cx, 8 * s);
        rlp_enc_width::<96>(&mut cx, 6 * s);
        rlp_enc_width::<128>(&mut cx, 6 * s);
        rlp_list_dec_width::<1>(&mut cx, 12);
        rlp_list_dec_width::<2>(&mut cx, 12);
        rlp_list_dec_width::<3>(&mut cx, 12);
        rlp_list_dec_width::<4>(&mut cx, 12);
        rlp_dec_width::<1>(&mut cx, 8 * s);
        rlp_dec_width::<2>(&mut cx, 8 * s);
        rlp_dec_width::<3>(&mut cx, 6 * s);
        rlp_dec_width::<4>(&mut cx, 8 * s);
    }
    cx.finish();
}
