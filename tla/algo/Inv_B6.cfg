SPECIFICATION Spec
CONSTANTS BITS = 6
 ZeroFix = TRUE
INVARIANT Inv2kOK
INVARIANT InvModOK
CHECK_DEADLOCK FALSE
