-------------------------------- MODULE JC11 --------------------------------
(* C11 — contract of the recorded events of this property (stub).           *)
EXTENDS BigNat

JudgeC11(e, rg) == FALSE
=============================================================================
