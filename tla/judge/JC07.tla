-------------------------------- MODULE JC07 --------------------------------
(* C07 — contract of the recorded events of this property (stub).           *)
EXTENDS BigNat

JudgeC07(e, rg) == FALSE
=============================================================================
