SPECIFICATION Spec
CONSTANTS Moduli = {1, 3, 5, 7, 9, 15}
 RBits = 4
 MaxLen = 3
 Window = 3
 EmitFor = 7
INVARIANT MontyCanonical
INVARIANT MontyTracksZm
INVARIANT HalveIsHalf
INVARIANT Emit
CHECK_DEADLOCK FALSE
