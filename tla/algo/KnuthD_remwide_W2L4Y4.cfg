SPECIFICATION Spec
CONSTANTS W = 2
 L = 4
 YC = 4
 Mode = "remwide"
INVARIANT Exact
INVARIANT PreHoldsEverywhere
CHECK_DEADLOCK FALSE
