SPECIFICATION Spec
CONSTANTS W = 2
 N = 2
 MAXLEN = 4
 Radices = {2, 3, 4}
INVARIANT DecodeOK
CHECK_DEADLOCK FALSE
