-------------------------------- MODULE JC12 --------------------------------
(* C12 — contract of the recorded events of this property (stub).           *)
EXTENDS BigNat

JudgeC12(e, rg) == FALSE
=============================================================================
