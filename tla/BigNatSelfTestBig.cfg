CONSTANT SmallMax = 10
CONSTANT UseBig = TRUE
INIT Init
NEXT Next
INVARIANT Agree
CHECK_DEADLOCK FALSE
