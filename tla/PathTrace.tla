------------------------------ MODULE PathTrace ------------------------------
(***************************************************************************)
(* Spec-side path labels (DESIGN §4.2): the algorithm model that TLC       *)
(* explored exhaustively at W in {2,3,4} (algo/KnuthD.tla) is evaluated    *)
(* here at W = 64 on the inputs of recorded division calls.  For each      *)
(* sampled event the model's result is compared with the recorded outcome  *)
(* (a disagreement is SPEC-DRIFT: the code no longer follows the           *)
(* transcription — informational, never a violation) and the model's path  *)
(* (q_maxed, number of 3-by-2 corrections, add-back taken) is counted, so  *)
(* that "the add-back branch of the real 64-bit code was executed and gave *)
(* the right answer" is a measured fact of the run.                        *)
(***************************************************************************)
EXTENDS TLC, Json, IOUtils, Sequences, Integers
K == INSTANCE KnuthD WITH W <- 64
Rec == ndJsonDeserialize(IOEnv.TRACE)
Stride == atoi(IOEnv.STRIDE)
VARIABLE i

Ct(e)  == e.op = "divrem" /\ e.form = "uint.div_rem" /\ e.nb = e.db /\ e.nb >= 128 /\ e.nb <= 512 /\ e.k = "ok" /\ e.d # <<>>
Vt(e)  == e.op = "divrem" /\ e.form = "uint.div_rem_vartime" /\ e.nb = e.db /\ e.nb >= 128 /\ e.nb <= 512 /\ e.k = "ok" /\ e.d # <<>>
Lb(e)  == e.op = "divrem" /\ e.form = "uint.div_rem_limb" /\ e.nb <= 512 /\ e.k = "ok" /\ e.d # <<>>
Rw(e)  == e.op = "divrem" /\ e.form = "uint.rem_wide_vartime" /\ e.db >= 128 /\ e.db <= 512 /\ e.nb = 2 * e.db /\ e.k = "ok" /\ e.d # <<>>
Sig(d) == (K!BitLen(d) + 63) \div 64                       \* significant words of the divisor

Count(path, idx) == LET RECURSIVE C(_) C(j) == IF j = 0 THEN 0 ELSE (IF path[j][idx] = TRUE THEN 1 ELSE 0) + C(j - 1) IN C(Len(path))
Corr(path) == LET RECURSIVE C(_) C(j) == IF j = 0 THEN 0 ELSE path[j][2] + C(j - 1) IN C(Len(path))

Bump(r, v) == TLCSet(r, TLCGet(r) + v)
Init == i = 1 /\ TLCSet(1, 0) /\ TLCSet(2, 0) /\ TLCSet(3, 0) /\ TLCSet(4, 0) /\ TLCSet(5, 0) /\ TLCSet(6, 0) /\ TLCSet(7, 0) /\ TLCSet(8, 0) /\ TLCSet(9, 0) /\ TLCSet(10, 0) /\ TLCSet(11, 0) /\ TLCSet(12, 0) /\ TLCSet(13, 0)
Step ==
  /\ i <= Len(Rec)
  /\ LET e == Rec[i] IN
     IF Ct(e) \/ Vt(e) THEN
       LET L == e.nb \div 64
           o == IF Ct(e) THEN K!DivRemCT(K!Words(e.n, L), K!Words(e.d, L), L)
                ELSE K!DivRemVartime(K!Words(e.n, L), K!Words(e.d, L), L, Sig(e.d))
       IN /\ Bump(1, 1)                                          \* events evaluated
          /\ Bump(2, IF Count(o.path, 3) > 0 THEN 1 ELSE 0)      \* events that take add-back
          /\ Bump(3, IF Count(o.path, 1) > 0 THEN 1 ELSE 0)      \* events with a maxed quotient estimate
          /\ Bump(4, IF Corr(o.path) > 0 THEN 1 ELSE 0)          \* events with a 3-by-2 correction
          /\ Bump(6, IF Ct(e) THEN 1 ELSE 0)
          /\ Bump(10, IF Vt(e) /\ Count(o.path, 5) > 0 THEN 1 ELSE 0) \* vartime: add-back visible in the top limb only
          /\ IF o.q = e.q /\ o.r = e.r THEN TRUE ELSE Bump(5, 1) /\ PrintT(<<"SPEC-DRIFT", i>>)
     ELSE IF Lb(e) THEN
       LET o == K!DivRemLimb(K!Words(e.n, e.nb \div 64), e.d)
       IN /\ Bump(7, 1)                                          \* limb divisions evaluated
          /\ Bump(8, IF o.corr[1] > 0 THEN 1 ELSE 0)             \* ... with a first 2-by-1 correction
          /\ Bump(9, IF o.corr[2] > 0 THEN 1 ELSE 0)             \* ... with the (rare) second 2-by-1 correction
          /\ IF o.q = e.q /\ o.r = e.r THEN TRUE ELSE Bump(5, 1) /\ PrintT(<<"SPEC-DRIFT", i>>)
     ELSE IF Rw(e) THEN
       LET L == e.db \div 64
           nw == K!Words(e.n, 2 * L)
           o == K!RemWideVartime(SubSeq(nw, 1, L), SubSeq(nw, L + 1, 2 * L), K!Words(e.d, L), L)
       IN /\ Bump(11, 1)                                         \* wide remainders evaluated
          /\ Bump(12, IF Count(o.path, 3) > 0 THEN 1 ELSE 0)     \* ... that take add-back
          /\ Bump(13, IF Sig(e.d) = 1 THEN 1 ELSE 0)             \* ... with a single-word divisor (div2by1 chain)
          /\ IF o.r = e.r THEN TRUE ELSE Bump(5, 1) /\ PrintT(<<"SPEC-DRIFT", i>>)
     ELSE TRUE
  /\ i' = i + Stride
Spec == Init /\ [][Step]_i
Done == PrintT(<<"PATHS", TLCGet(1), TLCGet(2), TLCGet(3), TLCGet(4), TLCGet(5), TLCGet(6)>>) /\ PrintT(<<"LIMBPATHS", TLCGet(7), TLCGet(8), TLCGet(9)>>) /\ PrintT(<<"TOPONLY", TLCGet(10)>>) /\ PrintT(<<"REMWIDE", TLCGet(11), TLCGet(12), TLCGet(13)>>)
=============================================================================
