SPECIFICATION Spec
CONSTANTS W = 3
 N = 3
 ZeroFix = TRUE
INVARIANT VartimeOK
INVARIANT LadderOK
INVARIANT WideOK
CHECK_DEADLOCK FALSE
