-------------------------------- MODULE JC18 --------------------------------
(* C18 — contract of the recorded events of this property (stub).           *)
EXTENDS BigNat

JudgeC18(e, rg) == FALSE
=============================================================================
