-------------------------------- MODULE JC16 --------------------------------
(* C16 — byte, hex, word and primitive conversions are lossless, positional *)
(* and strict.                                                              *)
(*                                                                          *)
(* A natural is a BigNat (little-endian base-256 digits without leading     *)
(* zeros), so "the big-endian byte i of an n-byte value x is                *)
(* floor(x / 256^(n-1-i)) mod 256" is BytesBE(x, n)[i+1], little-endian     *)
(* reversed: BytesLE(x, n).  Raw byte strings (fields src, bytes, str, enc) *)
(* are sequences of byte codes kept as recorded.                            *)
(*                                                                          *)
(* Event classes (field op), inputs -> outputs:                             *)
(*  enc     x, nb, en          -> bytes    n-byte encoding, en = be | le     *)
(*  dec     src, nb, en        -> y        exactly nb bytes, otherwise the   *)
(*                                         call must not return a value      *)
(*  bdec    src, prec, en      -> y, yp | err e   BoxedUint::from_*_slice    *)
(*  hexdec  src, nb, en, bad   -> y [,yp]  2*nb hex characters; bad = how    *)
(*                                         this form rejects a non-hex       *)
(*                                         character (panic | none)          *)
(*  fmt     x, nb, f, alt      -> str      f = x | X | b, alt = "#" flag     *)
(*  id      x [,eb] [,mp]      -> y [,yb]  value-preserving conversion       *)
(*  sext    x, xb, yb [,mp]    -> y        two's complement pattern resized  *)
(*  trunc   x, xb, yb          -> y        unsigned resize                   *)
(*  bresize x, xb, tb, w       -> y, yp    boxed widen | shorten             *)
(*  concat  lo, lb, hi, hb     -> y                                          *)
(*  split   x, xb, lb          -> lo, hi                                     *)
(*  ser     x, nb, sf          -> enc      serde, sf = bincode | json | ...  *)
(*  de      src, nb, sf        -> y | err                                    *)
EXTENDS BigNat

Has(e, f) == f \in DOMAIN e

(* value of a raw byte string (leading zeros allowed) *)
FromBytesBE(s) == FromDigits(s, 256)
FromBytesLE(s) == FromDigits(Reverse(s), 256)
Dec(en, s)     == IF en = "be" THEN FromBytesBE(s) ELSE FromBytesLE(s)
Enc(en, x, n)  == IF en = "be" THEN BytesBE(x, n) ELSE BytesLE(x, n)
Ceil64(p)      == 64 * ((p + 63) \div 64)

(* hexadecimal alphabet: 0-9 A-F a-f and nothing else *)
HexVal(c) == IF c >= 48 /\ c <= 57 THEN c - 48
             ELSE IF c >= 65 /\ c <= 70 THEN c - 55
             ELSE IF c >= 97 /\ c <= 102 THEN c - 87
             ELSE -1
IsHex(s)    == \A i \in 1..Len(s) : HexVal(s[i]) >= 0
HexBytes(s) == [i \in 1..(Len(s) \div 2) |-> 16 * HexVal(s[2 * i - 1]) + HexVal(s[2 * i])]
HexChar(d, up) == IF d < 10 THEN 48 + d ELSE (IF up THEN 55 ELSE 87) + d
HexStr(b, up)  == [i \in 1..(2 * Len(b)) |->
                     HexChar(IF i % 2 = 1 THEN b[(i + 1) \div 2] \div 16 ELSE b[i \div 2] % 16, up)]
BinStr(b)      == [i \in 1..(8 * Len(b)) |->
                     48 + ((b[((i - 1) \div 8) + 1] \div (2 ^ (7 - ((i - 1) % 8)))) % 2)]

--------------------------------------------------------------------------
JudgeEnc(e) ==
  /\ e.k = "ok"
  /\ Len(e.x) <= e.nb
  /\ e.bytes = Enc(e.en, e.x, e.nb)

JudgeDec(e) ==
  IF Len(e.src) = e.nb
    THEN e.k = "ok" /\ e.y = Dec(e.en, e.src)
    ELSE e.k = "panic"                      \* a function returning Self can reject only by panicking

(* BoxedUint::from_be_slice / from_le_slice: InputSize iff longer than       *)
(* ceil(prec / 8) bytes, Precision iff the value needs more than prec bits; *)
(* when both hold either error is accepted.                                 *)
JudgeBDec(e) ==
  LET need == (e.prec + 7) \div 8
      v    == Dec(e.en, e.src)
      long == Len(e.src) > need
      big  == ~Fits(v, e.prec)
  IN IF long \/ big
       THEN /\ e.k = "err"
            /\ e.e \in {"InputSize", "Precision"}
            /\ (e.e = "InputSize" => long)
            /\ (e.e = "Precision" => big)
       ELSE /\ e.k = "ok"
            /\ e.y = v
            /\ (e.yp = Ceil64(e.prec) \/ (e.prec = 0 /\ e.yp = 64))   \* zero() for prec = 0

JudgeHexDec(e) ==
  LET chars == Len(e.src)
  IN IF Has(e, "amb")
       \* boxed precision not a multiple of the limb size: the documentation does not say which
       \* size is expected (nb = floor, nb2 = ceiling); any other size must be refused
       THEN IF chars # 2 * e.nb /\ chars # 2 * e.nb2 THEN e.k = "panic"
            ELSE /\ e.k \in {"ok", "none", "panic"}
                 /\ (e.k = "ok" => /\ IsHex(e.src)
                                   /\ e.y = Dec(e.en, HexBytes(e.src)))
     ELSE IF chars # 2 * e.nb THEN e.k = "panic"
     ELSE IF ~IsHex(e.src) THEN e.k = e.bad
     ELSE /\ e.k = "ok"
          /\ e.y = Dec(e.en, HexBytes(e.src))
          /\ (Has(e, "yp") => e.yp = 8 * e.nb)

JudgeFmt(e) ==
  /\ e.k = "ok"
  /\ Len(e.x) <= e.nb
  /\ LET b    == BytesBE(e.x, e.nb)
         body == IF e.f = "b" THEN BinStr(b) ELSE HexStr(b, e.f = "X")
         pre  == IF e.alt = 1 THEN (IF e.f = "b" THEN <<48, 98>> ELSE <<48, 120>>) ELSE <<>>
     IN e.str = pre \o body

(* value-preserving conversions; mp: the target is narrower than the source *)
(* type and the constructor asserts this, so a panic is acceptable — a      *)
(* changed value never is                                                    *)
JudgeId(e) ==
  \/ (Has(e, "mp") /\ e.k = "panic")
  \/ /\ e.k = "ok"
     /\ e.y = e.x
     /\ (Has(e, "yb") => (Has(e, "eb") /\ e.yb = e.eb))

JudgeSext(e) ==
  \/ (Has(e, "mp") /\ e.k = "panic")
  \/ /\ e.k = "ok"
     /\ e.y = SEnc(SVal(e.x, e.xb), e.yb)    \* sign extension (yb >= xb) or truncation

JudgeTrunc(e) ==
  /\ e.k = "ok"
  /\ e.y = Mod2k(e.x, e.yb)

(* a requested precision of 0 bits is represented with one limb by zero_with_precision      *)
(* (documentation: "rounded up to a multiple of Limb::BITS"): both readings are accepted     *)
PrecOK(tb, yp) == yp = Ceil64(tb) \/ (tb = 0 /\ yp = 64)

JudgeBResize(e) ==
  IF e.w = "widen"
    THEN IF e.tb < e.xb THEN e.k = "panic"
         ELSE e.k = "ok" /\ PrecOK(e.tb, e.yp) /\ e.y = e.x
    ELSE IF e.tb > e.xb THEN e.k = "panic"
         ELSE e.k = "ok" /\ PrecOK(e.tb, e.yp) /\ e.y = Mod2k(e.x, e.yp)

JudgeConcat(e) ==
  /\ e.k = "ok"
  /\ e.y = Add(e.lo, Shl(e.hi, e.lb))

JudgeSplit(e) ==
  /\ e.k = "ok"
  /\ e.lo = Mod2k(e.x, e.lb)
  /\ e.hi = Shr(e.x, e.lb)

(* serde: binary formats carry the little-endian byte array with a 64-bit    *)
(* length prefix (bincode's slice encoding); human-readable formats a        *)
(* lower-case hex string of the same bytes                                   *)
Bin(x, nb) == BytesLE(FromInt(nb), 8) \o BytesLE(x, nb)

JudgeSer(e) ==
  /\ e.k = "ok"
  /\ Len(e.x) <= e.nb
  /\ CASE e.sf = "bincode"      -> e.enc = Bin(e.x, e.nb)
       [] e.sf = "bincode_some" -> e.enc = <<1>> \o Bin(e.x, e.nb)
       [] e.sf = "bincode_word" -> e.enc = BytesLE(e.x, 8)
       [] e.sf = "json"         -> e.enc = <<34>> \o HexStr(BytesLE(e.x, e.nb), FALSE) \o <<34>>
       [] OTHER -> FALSE

JudgeDe(e) ==
  LET n == Len(e.src)
  IN CASE e.sf = "bincode" ->
            IF n = 8 + e.nb /\ FromBytesLE(SubSeq(e.src, 1, 8)) = FromInt(e.nb)
              THEN e.k = "ok" /\ e.y = FromBytesLE(SubSeq(e.src, 9, n))
              ELSE e.k = "err"
       [] e.sf = "bincode_word" ->
            IF n = 8 THEN e.k = "ok" /\ e.y = FromBytesLE(e.src)
            ELSE IF n < 8 THEN e.k = "err"
            ELSE e.k \in {"ok", "err"}
       [] e.sf = "json" ->
            IF /\ n = 2 * e.nb + 2
               /\ e.src[1] = 34 /\ e.src[n] = 34
               /\ IsHex(SubSeq(e.src, 2, n - 1))
              THEN e.k = "ok" /\ e.y = FromBytesLE(HexBytes(SubSeq(e.src, 2, n - 1)))
              ELSE e.k = "err"
       [] OTHER -> FALSE

JudgeC16(e, rg) ==
  CASE e.op = "enc"     -> JudgeEnc(e)
    [] e.op = "dec"     -> JudgeDec(e)
    [] e.op = "bdec"    -> JudgeBDec(e)
    [] e.op = "hexdec"  -> JudgeHexDec(e)
    [] e.op = "fmt"     -> JudgeFmt(e)
    [] e.op = "id"      -> JudgeId(e)
    [] e.op = "sext"    -> JudgeSext(e)
    [] e.op = "trunc"   -> JudgeTrunc(e)
    [] e.op = "bresize" -> JudgeBResize(e)
    [] e.op = "concat"  -> JudgeConcat(e)
    [] e.op = "split"   -> JudgeSplit(e)
    [] e.op = "ser"     -> JudgeSer(e)
    [] e.op = "de"      -> JudgeDe(e)
    [] OTHER -> FALSE
=============================================================================
