SPECIFICATION Spec
CONSTANTS W = 3
 N = 3
 Mode = "params"
INVARIANT ParamsOK
CHECK_DEADLOCK FALSE
