SPECIFICATION Spec
CONSTANTS IB = 5
 OB = 3
 TB = 5
 NI = 3
 NO = 6
 Mut = 0
INVARIANT ConvertOK
CHECK_DEADLOCK FALSE
