-------------------------------- MODULE Rand --------------------------------
(***************************************************************************)
(* The rejection sampler random_mod_core (src/uint/rand.rs:122-168) as a   *)
(* function of the RNG stream — the stream is the environment — at word    *)
(* size W with NL limbs.  For EVERY modulus TLC checks                     *)
(*   Range    every stream of K words yields a value below the modulus or  *)
(*            asks for more words;                                         *)
(*   Uniform  among the streams of exactly one round the accepted ones map *)
(*            onto 0..m-1 with equal multiplicity: a uniform stream gives  *)
(*            a uniform output (a biased mask or a wrong early-rejection   *)
(*            comparison is a counterexample although Range still holds).  *)
(* The single-limb byte-wise sampler (src/limb/rand.rs) is LimbMod.        *)
(***************************************************************************)
EXTENDS Integers, Sequences, FiniteSets, TLC
CONSTANTS W, NL, K        \* bits per word, limbs of the integer type, stream length explored for Range
B == 2 ^ W
R == B ^ NL
BitLen(x) == IF x = 0 THEN 0 ELSE CHOOSE k \in 1..(W * NL) : 2 ^ (k - 1) <= x /\ x < 2 ^ k
LZ(w) == W - BitLen(w)
NLimbs(m) == (BitLen(m) + W - 1) \div W
HiMod(m) == (m \div B ^ (NLimbs(m) - 1)) % B
Mask(m) == 2 ^ (W - LZ(HiMod(m))) - 1

RECURSIVE Core(_, _, _, _)
Core(s, m, pos, hi) ==                                   \* <<value or -1, next unread position>>
  IF hi > HiMod(m)                                       \* early rejection loop
  THEN IF pos > Len(s) THEN <<-1, pos>> ELSE Core(s, m, pos + 1, s[pos] % (Mask(m) + 1))
  ELSE LET k == NLimbs(m) - 1 IN
       IF pos + k - 1 > Len(s) THEN <<-1, pos>>
       ELSE LET low == [i \in 1..k |-> s[pos + i - 1]]
                RECURSIVE LV(_)
                LV(i) == IF i = 0 THEN 0 ELSE low[i] * B ^ (i - 1) + LV(i - 1)
                n == hi * B ^ k + LV(k)
            IN IF n < m THEN <<n, pos + k>>
               ELSE IF pos + k > Len(s) THEN <<-1, pos + k>>
               ELSE Core(s, m, pos + k + 1, s[pos + k] % (Mask(m) + 1))
RandomMod(s, m) == IF Len(s) = 0 THEN <<-1, 1>> ELSE Core(s, m, 2, s[1] % (Mask(m) + 1))

Words == 0..B - 1
Streams(k) == [1..k -> Words]

VARIABLE m
Init == m \in 1..R - 1
Next == UNCHANGED m
Spec == Init /\ [][Next]_m

Range == \A s \in Streams(K) : LET o == RandomMod(s, m) IN o[1] >= 0 => o[1] < m
FirstRound == {s \in Streams(NLimbs(m)) : RandomMod(s, m)[1] >= 0}
Uniform == LET cnt(v) == Cardinality({s \in FirstRound : RandomMod(s, m)[1] = v})
           IN \A v \in 0..m - 1 : cnt(v) = cnt(0) /\ cnt(0) > 0
(* the expected number of rounds is at most 2: at least half of the masked candidates are accepted *)
AcceptRate == 2 * Cardinality(FirstRound) >= B ^ NLimbs(m)
=============================================================================
