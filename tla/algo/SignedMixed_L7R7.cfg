SPECIFICATION Spec
CONSTANTS LB = 7
 RB = 7
INVARIANT CheckedOK
INVARIANT WideningOK
INVARIANT SplitOK
INVARIANT UintOK
INVARIANT UintRightOK
INVARIANT WideningUintOK
CHECK_DEADLOCK FALSE
