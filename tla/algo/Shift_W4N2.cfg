SPECIFICATION Spec
CONSTANTS W = 4
 N = 2
 ZeroFix = TRUE
INVARIANT VartimeOK
INVARIANT LadderOK
INVARIANT WideOK
CHECK_DEADLOCK FALSE
