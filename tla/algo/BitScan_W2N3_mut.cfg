SPECIFICATION Spec
CONSTANTS Mut = 1
 W = 2
 N = 3
INVARIANT BitOK
INVARIANT CountOK
INVARIANT SetOK
CHECK_DEADLOCK FALSE
