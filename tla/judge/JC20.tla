-------------------------------- MODULE JC20 --------------------------------
(* C20 — contract of the recorded events of this property (stub).           *)
EXTENDS BigNat

JudgeC20(e, rg) == FALSE
=============================================================================
