--------------------------- MODULE ModArithProofs ---------------------------
(***************************************************************************)
(* Width-independent proofs (TLAPS) of the modular add / sub / neg / double*)
(* / halve identities behind C07 and C08: N is ANY modulus of the machine  *)
(* representation (2^BITS for every limb count), p any modulus below it.   *)
(* The wrapped sums of the limb code are written with case splits (a sum   *)
(* of two values below N wraps at most once), so every obligation is       *)
(* linear integer arithmetic.  The same identities are checked by Apalache *)
(* at N = 2^256 (tla/apalache/ModLemmas256.tla) and exhaustively at small  *)
(* word sizes (tla/algo/ModArith.tla); here N and p are arbitrary.         *)
(* "r is the canonical residue of x" is stated without %: 0 <= r < p and   *)
(* x - r is an explicit multiple of p.                                     *)
(* Check: tlapm --threads 8 ModArithProofs.tla                             *)
(***************************************************************************)
EXTENDS Integers, TLAPS

Wrap(x, m) == IF x >= m THEN x - m ELSE x              \* x mod N for 0 <= x < 2N
WrapS(x, m) == IF x < 0 THEN x + m ELSE x              \* x mod N for -N <= x < N

(* add_mod: w = (a + b) mod N, carry; t = w - p, borrow; mask = carry - borrow < 0; result = (t mod N) + (mask ? p : 0) mod N *)
AddRes(a, b, p, N) ==
  LET s == a + b
      w == Wrap(s, N)
      carry == IF s >= N THEN 1 ELSE 0
      t == w - p
      borrow == IF t < 0 THEN 1 ELSE 0
      w2 == WrapS(t, N)
  IN Wrap(w2 + (IF carry - borrow < 0 THEN p ELSE 0), N)       \* mask = borrow-out of carry - borrow

THEOREM AddMod ==
  ASSUME NEW N \in Int, NEW p \in Int, NEW a \in Int, NEW b \in Int,
         0 < p, p < N, 0 <= a, a < N, 0 <= b, b < N, a + b < 2 * p
  PROVE  /\ 0 <= AddRes(a, b, p, N) /\ AddRes(a, b, p, N) < p
         /\ \/ AddRes(a, b, p, N) = a + b
            \/ AddRes(a, b, p, N) = a + b - p
<1>0. AddRes(a, b, p, N) = Wrap(WrapS(Wrap(a + b, N) - p, N) + (IF (IF a + b >= N THEN 1 ELSE 0) - (IF Wrap(a + b, N) - p < 0 THEN 1 ELSE 0) < 0 THEN p ELSE 0), N)
  BY DEF AddRes
<1>1. CASE a + b >= N                              \* the sum wrapped: carry = 1, and then w - p borrows (a + b < 2p < N + p)
  <2>1. Wrap(a + b, N) = a + b - N BY <1>1 DEF Wrap
  <2>2. a + b - N - p < 0 BY <1>1
  <2>3. WrapS(a + b - N - p, N) = a + b - p BY <2>2 DEF WrapS
  <2>4. Wrap(a + b - p + 0, N) = a + b - p BY DEF Wrap
  <2> QED BY <1>0, <1>1, <2>1, <2>2, <2>3, <2>4
<1>2. CASE a + b < N /\ a + b - p < 0               \* no carry, borrow: the modulus is added back
  <2>1. Wrap(a + b, N) = a + b BY <1>2 DEF Wrap
  <2>2. WrapS(a + b - p, N) = a + b - p + N BY <1>2 DEF WrapS
  <2>3. Wrap(a + b - p + N + p, N) = a + b BY <1>2 DEF Wrap
  <2>4. (IF (IF a + b >= N THEN 1 ELSE 0) - (IF a + b - p < 0 THEN 1 ELSE 0) < 0 THEN p ELSE 0) = p BY <1>2
  <2>5. AddRes(a, b, p, N) = a + b BY <1>0, <2>1, <2>2, <2>3, <2>4
  <2> QED BY <2>5, <1>2
<1>3. CASE a + b < N /\ a + b - p >= 0              \* no carry, no borrow
  <2>1. Wrap(a + b, N) = a + b BY <1>3 DEF Wrap
  <2>2. WrapS(a + b - p, N) = a + b - p BY <1>3 DEF WrapS
  <2>3. Wrap(a + b - p + 0, N) = a + b - p BY <1>3 DEF Wrap
  <2> QED BY <1>0, <1>3, <2>1, <2>2, <2>3
<1> QED BY <1>1, <1>2, <1>3

(* sub_mod: out = (a - b) mod N, borrow mask; result = out + (mask ? p : 0) mod N *)
SubRes(a, b, p, N) ==
  LET d == a - b
      out == WrapS(d, N)
  IN Wrap(out + (IF d < 0 THEN p ELSE 0), N)

THEOREM SubMod ==
  ASSUME NEW N \in Int, NEW p \in Int, NEW a \in Int, NEW b \in Int,
         0 < p, p < N, 0 <= a, a < N, 0 <= b, b < N, a - b >= 0 - p, a - b < p
  PROVE  /\ 0 <= SubRes(a, b, p, N) /\ SubRes(a, b, p, N) < p
         /\ \/ SubRes(a, b, p, N) = a - b
            \/ SubRes(a, b, p, N) = a - b + p
  BY DEF SubRes, Wrap, WrapS

(* sub_mod_with_carry: the minuend is a + carry*N with carry <= 1; mask = (carry = 0) /\ borrow *)
SwcRes(a, cy, b, p, N) ==
  LET d == a - b
      out == WrapS(d, N)
      mask == cy = 0 /\ d < 0
  IN Wrap(out + (IF mask THEN p ELSE 0), N)

THEOREM SubModWithCarry ==
  ASSUME NEW N \in Int, NEW p \in Int, NEW a \in Int, NEW b \in Int, NEW cy \in {0, 1},
         0 < p, p < N, 0 <= a, a < N, 0 <= b, b < N,
         a + cy * N - b >= 0 - p, a + cy * N - b < p
  PROVE  /\ 0 <= SwcRes(a, cy, b, p, N) /\ SwcRes(a, cy, b, p, N) < p
         /\ \/ SwcRes(a, cy, b, p, N) = a + cy * N - b
            \/ SwcRes(a, cy, b, p, N) = a + cy * N - b + p
  BY DEF SwcRes, Wrap, WrapS

(* neg_mod: p - a, zeroed when a = 0 *)
NegRes(a, p) == IF a = 0 THEN 0 ELSE p - a

THEOREM NegMod ==
  ASSUME NEW p \in Int, NEW a \in Int, 0 < p, 0 <= a, a < p
  PROVE  /\ 0 <= NegRes(a, p) /\ NegRes(a, p) < p
         /\ \/ a + NegRes(a, p) = 0
            \/ a + NegRes(a, p) = p
  BY DEF NegRes

(* special modulus p = N - c: add_mod_special: (out, carry) = a + b + c; l = carry = 0 ? c : 0; out - l mod N *)
AddSpecialRes(a, b, c, N) ==
  LET s == a + b + c
      out == Wrap(s, N)
      carry == IF s >= N THEN 1 ELSE 0
      l == IF carry = 0 THEN c ELSE 0
  IN WrapS(out - l, N)

THEOREM AddModSpecial ==
  ASSUME NEW N \in Int, NEW c \in Int, NEW a \in Int, NEW b \in Int,
         0 < c, c < N, 0 <= a, a < N, 0 <= b, b < N, a + b < 2 * (N - c)
  PROVE  /\ 0 <= AddSpecialRes(a, b, c, N) /\ AddSpecialRes(a, b, c, N) < N - c
         /\ \/ AddSpecialRes(a, b, c, N) = a + b
            \/ AddSpecialRes(a, b, c, N) = a + b - (N - c)
  BY DEF AddSpecialRes, Wrap, WrapS

(* sub_mod_special: out - (borrow ? c : 0) mod N *)
SubSpecialRes(a, b, c, N) ==
  LET d == a - b
      out == WrapS(d, N)
  IN WrapS(out - (IF d < 0 THEN c ELSE 0), N)

THEOREM SubModSpecial ==
  ASSUME NEW N \in Int, NEW c \in Int, NEW a \in Int, NEW b \in Int,
         0 < c, c < N, 0 <= a, a < N, 0 <= b, b < N, a - b >= 0 - (N - c), a - b < N - c
  PROVE  /\ 0 <= SubSpecialRes(a, b, c, N) /\ SubSpecialRes(a, b, c, N) < N - c
         /\ \/ SubSpecialRes(a, b, c, N) = a - b
            \/ SubSpecialRes(a, b, c, N) = a - b + (N - c)
  BY DEF SubSpecialRes, Wrap, WrapS

(* div_by_2 for odd p: h with 2h = a or 2h = a + p; stated on the halves: a = 2q + r, p = 2k + 1 *)
THEOREM DivBy2 ==
  ASSUME NEW p \in Int, NEW a \in Int, NEW q \in Int, NEW k \in Int, NEW r \in {0, 1},
         0 <= a, a < p, a = 2 * q + r, p = 2 * k + 1, k >= 0
  PROVE  LET h == IF r = 0 THEN q ELSE q + k + 1                 \* (a + p) / 2 when a is odd
         IN /\ 0 <= h /\ h < p
            /\ \/ 2 * h = a
               \/ 2 * h = a + p
  OBVIOUS
=============================================================================
