//! C03 recorder: multiplication and squaring, every form, on limbs, fixed (Uint, Int) and boxed integers.
//!
//! Event classes (`op`) and the shape tag `sh` (the documented shape of the result of that form):
//!   `mul`  a, b, ab, bb (operand widths in bits), sh      `sq`  a, ab, sh  (the product is a*a, bb = ab)
//!      sh = "split"   -> lo (ab bits), hi (bb bits): every limb of the product
//!           "wide"    -> r = the whole product [, rp = ab + bb for a boxed result]
//!           "wrap"    -> r = product mod 2^ab   [, rp = ab]
//!           "checked" -> ok(r) exactly when the product fits ab bits, else none
//!           "sat"     -> r = product, or 2^ab - 1 exactly on overflow
//!           "panic"   -> ok(r) when it fits, a panic exactly on overflow (operators)
//!           "op"      -> boxed operators taking an operand by value: the documentation does not say
//!                        whether they widen or check; either is accepted, the value must be exact
//!   `mac`  a, b, c, cy -> lo, hi  with  a + b*c + cy = lo + 2^64 hi   (Limb::mac)
//!   `imul` signed: a, b two's-complement patterns, ab, bb, bu (1 = rhs is a Uint), sh =
//!           "isplit"   -> lo, hi (lb = bits of lo), neg: magnitude and sign of the product
//!           "iwide"    -> r = pattern of the product at ab + bb bits
//!           "ichecked" -> ok(r) (pattern at rb bits) exactly when the product is in [MIN, MAX] at rb bits
//!           "ipanic"   -> ok(r) or a panic exactly on overflow
//!   `isq`  signed a -> unsigned |a|^2 in the Uint shapes above
use vh::cb::{BoxedUint, Checked, CheckedMul, Concat, ConcatMixed, Int, Limb, Uint, WideningMul, Wrapping, WrappingMul};
use vh::*;

// ------------------------------------------------------------------------------------------------
// inputs

/// (small, big) of h limbs each with small <= big, built from a base value and a difference
fn ordered(r: &mut Rng, h: usize, depth: usize) -> (Vec<u64>, Vec<u64>) {
    let u = kar(r, h, depth);
    let d = match r.below(6) {
        0 => fit(vec![1], h),
        1 => { let mut v = vec![0; h]; let b = r.below(64 * h); v[b / 64] = 1 << (b % 64); v }
        2 => { let mut v = vec![0; h]; v[h - 1] = r.pick(&[1, TOP, MAX]); v } // differ in the top limb only
        3 => nat(r, h),
        _ => kar(r, h, depth), // the difference is what the recursion multiplies
    };
    let s = vadd(&u, &d);
    if fits(&s, h) {
        (u, fit(trim(s), h))
    } else if vcmp(&u, &d).is_ge() {
        (vsub(&u, &d), u)
    } else {
        (u, d)
    }
}

/// n-limb operand with Karatsuba-relevant structure in its halves, recursively
fn kar(r: &mut Rng, n: usize, depth: usize) -> Vec<u64> {
    if n < 2 || depth == 0 {
        return nat(r, n);
    }
    let h = n / 2; // low half h limbs, high half h limbs, (n odd: one trailing limb)
    let cat = |lo: Vec<u64>, hi: Vec<u64>, r: &mut Rng| -> Vec<u64> {
        let mut v = lo;
        v.extend(hi);
        if v.len() < n { v.push(limb(r)); }
        v
    };
    match r.below(20) {
        0 | 1 => { let x = kar(r, h, depth - 1); cat(x.clone(), x, r) } // equal halves
        2..=4 => { let (s, b) = ordered(r, h, depth - 1); cat(s, b, r) } // lo < hi
        5..=7 => { let (s, b) = ordered(r, h, depth - 1); cat(b, s, r) } // lo > hi
        8 => { let x = kar(r, h, depth - 1); cat(vec![0; h], x, r) }     // zero low half
        9 => { let x = kar(r, h, depth - 1); cat(x, vec![0; h], r) }     // zero high half
        10 => vec![MAX; n],                                              // maximal carry chains
        11 => { let x = kar(r, h, depth - 1); cat(vec![MAX; h], x, r) }
        12 => { let x = kar(r, h, depth - 1); cat(x, vec![MAX; h], r) }
        13 => { let mut v = vec![0; n]; let b = r.below(64 * n); v[b / 64] = 1 << (b % 64); v } // single bit
        14 | 15 => { let x = kar(r, h, depth - 1); let y = kar(r, h, depth - 1); cat(x, y, r) }
        _ => nat(r, n),
    }
}

/// (a, b) of al and bl limbs.  A share of the cases is shaped so that the product fits al limbs, a few sit
/// exactly on the overflow boundary.
/// Operands for the top Karatsuba level of an n-limb product (n even) that leave several carries pending where the
/// accumulator is all ones: the cross term (x0 - x1)(y1 - y0) is negative, and (x1 * y1) >> (32 n) ends in 128 one bits
/// (y1 = T div x1 for T = r : 1^128 : 1^(32 n)).  A carry word treated as a single bit in the recombination shows here only.
fn pending_carries(r: &mut Rng, n: usize) -> (Vec<u64>, Vec<u64>) {
    let h = n / 2;
    let hb = 64 * h;
    let mut x1 = uniform(r, h);
    x1[h - 1] = (x1[h - 1] >> 2) | (1 << 61);                               // 2^(hb-2) <= x1 < 2^(hb-1)
    let rr = vmask(&uniform(r, h), hb.saturating_sub(130).max(1));
    let t = vadd(&vshl(&vadd(&vshl(&rr, 128), &trim(vsub(&vpow2(128), &[1]))), hb), &trim(vsub(&vpow2(hb), &[1])));
    let y1 = fit(vdiv(&t, &x1), h);
    let above = |r: &mut Rng, v: &[u64]| -> Vec<u64> {                      // a random value above v (below 2^hb)
        let room = trim(vsub(&trim(vsub(&vpow2(hb), &[1])), v));
        if room.is_empty() { return v.to_vec(); }
        fit(vadd(v, &vadd(&below(r, &room), &[1])), h)
    };
    let (x0, y0) = (above(r, &x1), above(r, &y1));
    let cat = |lo: &[u64], hi: &[u64]| -> Vec<u64> { let mut v = fit(lo.to_vec(), h); v.extend(fit(hi.to_vec(), h)); v };
    (cat(&x0, &x1), cat(&y0, &y1))
}

fn mul_case(r: &mut Rng, al: usize, bl: usize) -> (Vec<u64>, Vec<u64>) {
    let depth = 4;
    let (mut a, mut b) = match r.below(20) {
        0 => (vec![MAX; al], vec![MAX; bl]),
        1 => (vec![MAX; al], kar(r, bl, depth)),
        2 => (kar(r, al, depth), vec![MAX; bl]),
        3 if al == bl => { let x = kar(r, al, depth); (x.clone(), x) } // a = b: multiply must equal square
        4 | 5 if al == bl && al % 2 == 0 && al >= 4 => pending_carries(r, al),
        _ => (kar(r, al, depth), kar(r, bl, depth)),
    };
    // shaping towards products that fit (for the checked / saturating / panicking forms); rarer at the
    // Karatsuba widths, where it would bias the halves towards x1 = 0, y1 = 0
    let (pf, pb) = if al >= 16 { (12, 18) } else { (30, 40) };
    match r.below(100) {
        x if x < pf => {
            // product certainly fits al limbs: ka + kb <= al significant limbs
            let ka = r.range(0, al);
            let kb = (al - ka).min(bl);
            for i in ka..al { a[i] = 0; }
            for i in kb..bl { b[i] = 0; }
        }
        x if x < pb => {
            // bit-level boundary: a about 2^i, b about 2^(64 al - i): product just below / at / above 2^(64 al)
            let bits = 64 * al;
            let lo_i = bits.saturating_sub(64 * bl).max(0);
            let i = r.range(lo_i, bits.min(64 * al));
            let j = bits - i;
            let around = |r: &mut Rng, k: usize, n: usize| -> Vec<u64> {
                // 2^k - 1, 2^k, 2^k + 1, or a run of ones of k bits followed by noise below
                let p = vpow2(k);
                let v = match r.below(4) {
                    0 => vsub(&p, &[1]),
                    1 => p,
                    2 => vadd(&p, &[1]),
                    _ => { let mut v = nat(r, n); v = vmask(&v, k.max(1) - 1); vadd(&v, &vpow2(k.max(1) - 1)) }
                };
                let v = trim(v);
                if fits(&v, n) { fit(v, n) } else { vec![MAX; n] }
            };
            a = around(r, i, al);
            b = around(r, j, bl);
        }
        _ => {}
    }
    (a, b)
}

/// operand for squaring: `kar` structure; a third of the cases fit (a < 2^(32 n)), some on the boundary
fn sq_case(r: &mut Rng, n: usize) -> Vec<u64> {
    let mut a = kar(r, n, 4);
    match r.below(100) {
        0..=24 => { a = vmask(&a, 32 * n); }
        25..=34 => {
            let p = vpow2(32 * n);
            let v = match r.below(4) { 0 => vsub(&p, &[1]), 1 => p, 2 => vadd(&p, &[1]), _ => vsub(&p, &[2]) };
            a = fit(trim(v), n);
        }
        35..=39 => { a = vec![MAX; n]; }
        _ => {}
    }
    a
}

// ------------------------------------------------------------------------------------------------
// events

fn ev(form: &str, sh: &str, al: usize, bl: usize, a: &[u64], b: &[u64]) -> Ev {
    Ev::new("mul", form).s("sh", sh).i("ab", 64 * al as i64).i("bb", 64 * bl as i64).n("a", a).n("b", b)
}
fn evs(form: &str, sh: &str, al: usize, a: &[u64]) -> Ev {
    Ev::new("sq", form).s("sh", sh).i("ab", 64 * al as i64).n("a", a)
}
fn r1<const N: usize>(x: &Uint<N>) -> O {
    O::ok().n("r", &w(x))
}
fn ropt<const N: usize>(x: Option<Uint<N>>) -> O {
    match x { Some(v) => r1(&v), None => O::none() }
}

/// equal widths: every form.  W = 2 N (the concatenated type)
fn fixed<const N: usize, const W: usize>(cx: &mut Cx, iters: usize)
where
    Uint<N>: Concat<Output = Uint<W>> + ConcatMixed<Uint<N>, MixedOutput = Uint<W>>,
{
    for it in 0..iters {
        let (av, bv) = mul_case(&mut cx.rng, N, N);
        let (a, b) = (u::<N>(&av), u::<N>(&bv));
        let e = |form: &str, sh: &str| ev(form, sh, N, N, &av, &bv);
        // core forms, every case
        cx.call(e("uint.split_mul", "split"), || { let (lo, hi) = a.split_mul(&b); O::ok().n("lo", &w(&lo)).n("hi", &w(&hi)) });
        cx.call(e("uint.wrapping_mul", "wrap"), || r1(&a.wrapping_mul(&b)));
        cx.call(e("uint.saturating_mul", "sat"), || r1(&a.saturating_mul(&b)));
        cx.call(e("uint.CheckedMul", "checked"), || ropt(CheckedMul::checked_mul(&a, &b).into()));
        cx.call(e("uint.op_mul_rr", "panic"), || r1(&(&a * &b)));
        match it % 4 {
            0 => {
                cx.call(e("uint.widening_mul", "wide"), || { let r: Uint<W> = a.widening_mul(&b); r1(&r) });
                cx.call(e("uint.WideningMul_v", "wide"), || { let r: Uint<W> = WideningMul::widening_mul(&a, b); r1(&r) });
                cx.call(e("uint.WideningMul_r", "wide"), || { let r: Uint<W> = WideningMul::widening_mul(&a, &b); r1(&r) });
                cx.call(e("uint.WrappingMul", "wrap"), || r1(&WrappingMul::wrapping_mul(&a, &b)));
            }
            1 => {
                cx.call(e("uint.op_mul_vv", "panic"), || r1(&(a * b)));
                cx.call(e("uint.op_mul_vr", "panic"), || r1(&(a * &b)));
                cx.call(e("uint.op_mul_rv", "panic"), || r1(&(&a * b)));
                cx.call(e("uint.op_mul_assign_v", "panic"), || { let mut t = a; t *= b; r1(&t) });
                cx.call(e("uint.op_mul_assign_r", "panic"), || { let mut t = a; t *= &b; r1(&t) });
            }
            2 => {
                let (wa, wb_) = (Wrapping(a), Wrapping(b));
                cx.call(e("wrapping.op_mul_vv", "wrap"), || r1(&(wa * wb_).0));
                cx.call(e("wrapping.op_mul_vr", "wrap"), || r1(&(wa * &wb_).0));
                cx.call(e("wrapping.op_mul_rv", "wrap"), || r1(&(&wa * wb_).0));
                cx.call(e("wrapping.op_mul_rr", "wrap"), || r1(&(&wa * &wb_).0));
                cx.call(e("wrapping.op_mul_assign_v", "wrap"), || { let mut t = wa; t *= wb_; r1(&t.0) });
                cx.call(e("wrapping.op_mul_assign_r", "wrap"), || { let mut t = wa; t *= &wb_; r1(&t.0) });
            }
            _ => {
                let (ca, cb_) = (Checked::new(a), Checked::new(b));
                cx.call(e("checked.op_mul_vv", "checked"), || ropt((ca * cb_).0.into()));
                cx.call(e("checked.op_mul_vr", "checked"), || ropt((ca * &cb_).0.into()));
                cx.call(e("checked.op_mul_rv", "checked"), || ropt((&ca * cb_).0.into()));
                cx.call(e("checked.op_mul_rr", "checked"), || ropt((&ca * &cb_).0.into()));
                cx.call(e("checked.op_mul_assign_v", "checked"), || { let mut t = ca; t *= cb_; ropt(t.0.into()) });
                cx.call(e("checked.op_mul_assign_r", "checked"), || { let mut t = ca; t *= &cb_; ropt(t.0.into()) });
            }
        }
        // squaring: the lhs of the pair and a dedicated operand alternately
        let sv = if it % 2 == 0 { sq_case(&mut cx.rng, N) } else { av.clone() };
        let x = u::<N>(&sv);
        let q = |form: &str, sh: &str| evs(form, sh, N, &sv);
        cx.call(q("uint.square_wide", "split"), || { let (lo, hi) = x.square_wide(); O::ok().n("lo", &w(&lo)).n("hi", &w(&hi)) });
        cx.call(q("uint.checked_square", "checked"), || ropt(x.checked_square().into()));
        if it % 2 == 0 {
            cx.call(q("uint.square", "wide"), || { let r: Uint<W> = x.square(); r1(&r) });
            cx.call(q("uint.widening_square", "wide"), || { let r: Uint<W> = x.widening_square(); r1(&r) });
            cx.call(q("uint.wrapping_square", "wrap"), || r1(&x.wrapping_square()));
            cx.call(q("uint.saturating_square", "sat"), || r1(&x.saturating_square()));
        } else {
            // squaring always equals multiplying the value by itself: the multiply route on (x, x)
            cx.call(ev("uint.split_mul_self", "split", N, N, &sv, &sv), || { let (lo, hi) = x.split_mul(&x); O::ok().n("lo", &w(&lo)).n("hi", &w(&hi)) });
        }
    }
}

/// mixed lhs/rhs widths (always the schoolbook route)
fn mixed<const N: usize, const R: usize>(cx: &mut Cx, iters: usize) {
    for it in 0..iters {
        let (av, bv) = mul_case(&mut cx.rng, N, R);
        let (a, b) = (u::<N>(&av), u::<R>(&bv));
        let e = |form: &str, sh: &str| ev(form, sh, N, R, &av, &bv);
        cx.call(e("uint.split_mul_mixed", "split"), || { let (lo, hi) = a.split_mul(&b); O::ok().n("lo", &w(&lo)).n("hi", &w(&hi)) });
        cx.call(e("uint.wrapping_mul_mixed", "wrap"), || r1(&a.wrapping_mul(&b)));
        cx.call(e("uint.saturating_mul_mixed", "sat"), || r1(&a.saturating_mul(&b)));
        cx.call(e("uint.CheckedMul_mixed", "checked"), || ropt(CheckedMul::checked_mul(&a, &b).into()));
        cx.call(e("uint.op_mul_rr_mixed", "panic"), || r1(&(&a * &b)));
        if it % 3 == 0 {
            cx.call(e("uint.op_mul_vv_mixed", "panic"), || r1(&(a * b)));
            cx.call(e("uint.op_mul_vr_mixed", "panic"), || r1(&(a * &b)));
            cx.call(e("uint.op_mul_rv_mixed", "panic"), || r1(&(&a * b)));
            cx.call(e("uint.op_mul_assign_v_mixed", "panic"), || { let mut t = a; t *= b; r1(&t) });
            cx.call(e("uint.op_mul_assign_r_mixed", "panic"), || { let mut t = a; t *= &b; r1(&t) });
        }
    }
}

/// mixed widening forms need the concatenated width as a literal
macro_rules! mixed_wide {
    ($cx:expr, $N:literal, $R:literal, $W:literal, $iters:expr) => {
        for _ in 0..$iters {
            let (av, bv) = mul_case(&mut $cx.rng, $N, $R);
            let (a, b) = (u::<$N>(&av), u::<$R>(&bv));
            $cx.call(ev("uint.widening_mul_mixed", "wide", $N, $R, &av, &bv), || { let r: Uint<$W> = a.widening_mul(&b); r1(&r) });
            $cx.call(ev("uint.WideningMul_v_mixed", "wide", $N, $R, &av, &bv), || { let r: Uint<$W> = WideningMul::widening_mul(&a, b); r1(&r) });
            $cx.call(ev("uint.WideningMul_r_mixed", "wide", $N, $R, &av, &bv), || { let r: Uint<$W> = WideningMul::widening_mul(&a, &b); r1(&r) });
        }
    };
}

// ------------------------------------------------------------------------------------------------
// limbs

fn limb_pair(r: &mut Rng) -> (u64, u64) {
    const H: u64 = 1 << 32;
    match r.below(10) {
        0 => { let a = r.pick(&[H, H - 1, H + 1, MAX, TOP, 1, 0, 2, 3]); let b = r.pick(&[H, H - 1, H + 1, MAX, TOP, 1, 0, 2, MAX / 3, MAX / 3 + 1]); (a, b) }
        1 => { // a * b just below / above 2^64: b = floor((2^64 - 1) / a) or one more
            let a = limb(r).max(1);
            let q = MAX / a;
            (a, if r.coin() { q } else { q.wrapping_add(1) })
        }
        2 => { // a = 2^i, b around 2^(64 - i): product just below / at / above 2^64
            let i = r.below(65);
            let a = if i == 64 { MAX } else { 1u64 << i };
            let p: u128 = 1u128 << (64 - i);
            let b = match r.below(3) { 0 => p - 1, 1 => p, _ => p + 1 };
            (a, b.min(MAX as u128) as u64)
        }
        3 => (r.next() >> 32, r.next() >> 32),
        _ => (limb(r), limb(r)),
    }
}

fn limbs(cx: &mut Cx, iters: usize) {
    for it in 0..iters {
        let (x, y) = limb_pair(&mut cx.rng);
        let (a, b) = (Limb(x), Limb(y));
        let e = |form: &str, sh: &str| ev(form, sh, 1, 1, &[x], &[y]);
        let l1 = |v: Limb| O::ok().n("r", &[v.0]);
        let lopt = |v: Option<Limb>| match v { Some(v) => O::ok().n("r", &[v.0]), None => O::none() };
        cx.call(e("limb.wrapping_mul", "wrap"), || l1(a.wrapping_mul(b)));
        cx.call(e("limb.saturating_mul", "sat"), || l1(a.saturating_mul(b)));
        cx.call(e("limb.CheckedMul", "checked"), || lopt(CheckedMul::checked_mul(&a, &b).into()));
        cx.call(e("limb.op_mul_vv", "panic"), || l1(a * b));
        // mac: all four operands structured, carries at the extremes
        let c = cx.rng.pick(&[0, 1, MAX, MAX - 1, TOP]);
        let acc = if cx.rng.coin() { cx.rng.pick(&[0, 1, MAX, MAX - 1, TOP]) } else { limb(&mut cx.rng) };
        let cy = if cx.rng.coin() { c } else { limb(&mut cx.rng) };
        cx.call(Ev::new("mac", "limb.mac").n("a", &[acc]).n("b", &[x]).n("c", &[y]).n("cy", &[cy]), || { let (lo, hi) = Limb(acc).mac(a, b, Limb(cy)); O::ok().n("lo", &[lo.0]).n("hi", &[hi.0]) });
        match it % 3 {
            0 => {
                cx.call(e("limb.WrappingMul", "wrap"), || l1(WrappingMul::wrapping_mul(&a, &b)));
                cx.call(e("limb.op_mul_vr", "panic"), || l1(a * &b));
                cx.call(e("limb.op_mul_rv", "panic"), || l1(&a * b));
                cx.call(e("limb.op_mul_rr", "panic"), || l1(&a * &b));
            }
            1 => {
                let (wa, wb_) = (Wrapping(a), Wrapping(b));
                cx.call(e("limb.wrapping.op_mul_vv", "wrap"), || l1((wa * wb_).0));
                cx.call(e("limb.wrapping.op_mul_vr", "wrap"), || l1((wa * &wb_).0));
                cx.call(e("limb.wrapping.op_mul_rv", "wrap"), || l1((&wa * wb_).0));
                cx.call(e("limb.wrapping.op_mul_rr", "wrap"), || l1((&wa * &wb_).0));
                cx.call(e("limb.wrapping.op_mul_assign_v", "wrap"), || { let mut t = wa; t *= wb_; l1(t.0) });
                cx.call(e("limb.wrapping.op_mul_assign_r", "wrap"), || { let mut t = wa; t *= &wb_; l1(t.0) });
            }
            _ => {
                let (ca, cb_) = (Checked::new(a), Checked::new(b));
                cx.call(e("limb.checked.op_mul_vv", "checked"), || lopt((ca * cb_).0.into()));
                cx.call(e("limb.checked.op_mul_vr", "checked"), || lopt((ca * &cb_).0.into()));
                cx.call(e("limb.checked.op_mul_rv", "checked"), || lopt((&ca * cb_).0.into()));
                cx.call(e("limb.checked.op_mul_rr", "checked"), || lopt((&ca * &cb_).0.into()));
                cx.call(e("limb.checked.op_mul_assign_v", "checked"), || { let mut t = ca; t *= cb_; lopt(t.0.into()) });
                cx.call(e("limb.checked.op_mul_assign_r", "checked"), || { let mut t = ca; t *= &cb_; lopt(t.0.into()) });
            }
        }
    }
}

// ------------------------------------------------------------------------------------------------
// signed

/// two's-complement pattern of n limbs: extremes, short magnitudes of either sign, structured patterns
fn ival(r: &mut Rng, n: usize) -> Vec<u64> {
    let min = { let mut v = vec![0; n]; v[n - 1] = TOP; v };
    let neg = |m: &[u64]| -> Vec<u64> { // 2^(64 n) - m  (mod 2^(64 n))
        let mut v: Vec<u64> = fit(m.to_vec(), n).iter().map(|x| !x).collect();
        let mut i = 0;
        while i < n { let (s, c) = v[i].overflowing_add(1); v[i] = s; if !c { break; } i += 1; }
        v
    };
    match r.below(16) {
        0 => min,
        1 => vadd(&min, &[1])[..n].to_vec(),          // MIN + 1
        2 => vsub(&min, &[1]),                        // MAX
        3 => vec![MAX; n],                            // -1
        4 => vec![0; n],
        5 => fit(vec![1], n),
        6..=10 => { // short magnitude with a sign: products that fit
            let k = r.range(1, n);
            let m = fit(vmask(&nat(r, k), 64 * k - if k == n { 1 } else { 0 }), n);
            if r.coin() { neg(&m) } else { m }
        }
        11 => { // +-2^i
            let i = r.below(64 * n - 1);
            let m = fit(trim(vpow2(i)), n);
            if r.coin() { neg(&m) } else { m }
        }
        _ => nat(r, n),
    }
}

fn iev(op: &str, form: &str, sh: &str, al: usize, bl: usize, a: &[u64], b: &[u64], bu: bool) -> Ev {
    Ev::new(op, form).s("sh", sh).i("ab", 64 * al as i64).i("bb", 64 * bl as i64).n("a", a).n("b", b).f("bu", bu)
}
fn ri<const N: usize>(x: &Int<N>) -> O {
    O::ok().n("r", &wi(x))
}
fn riopt<const N: usize>(x: Option<Int<N>>) -> O {
    match x { Some(v) => ri(&v), None => O::none() }
}

/// Int<N> x Int<R> and Int<N> x Uint<R>
fn signed<const N: usize, const R: usize>(cx: &mut Cx, iters: usize) {
    for it in 0..iters {
        let av = ival(&mut cx.rng, N);
        let bv = ival(&mut cx.rng, R);
        let (a, b) = (si::<N>(&av), si::<R>(&bv));
        let e = |form: &str, sh: &str| iev("imul", form, sh, N, R, &av, &bv, false);
        cx.call(e("int.split_mul", "isplit").i("lb", 64 * N as i64), || { let (lo, hi, ng) = a.split_mul(&b); O::ok().n("lo", &w(&lo)).n("hi", &w(&hi)).f("neg", ng.into()) });
        cx.call(e("int.CheckedMul", "ichecked").i("rb", 64 * N as i64), || riopt(CheckedMul::checked_mul(&a, &b).into()));
        cx.call(e("int.op_mul_rr", "ipanic").i("rb", 64 * N as i64), || ri(&(&a * &b)));
        if it % 3 == 0 {
            cx.call(e("int.op_mul_vv", "ipanic").i("rb", 64 * N as i64), || ri(&(a * b)));
            cx.call(e("int.op_mul_vr", "ipanic").i("rb", 64 * N as i64), || ri(&(a * &b)));
            cx.call(e("int.op_mul_rv", "ipanic").i("rb", 64 * N as i64), || ri(&(&a * b)));
        }
        // rhs unsigned
        let uv = if cx.rng.coin() { bv.clone() } else { mul_case(&mut cx.rng, N, R).1 };
        let ub = u::<R>(&uv);
        let e = |form: &str, sh: &str| iev("imul", form, sh, N, R, &av, &uv, true);
        cx.call(e("int.split_mul_uint", "isplit").i("lb", 64 * N as i64), || { let (lo, hi, ng) = a.split_mul_uint(&ub); O::ok().n("lo", &w(&lo)).n("hi", &w(&hi)).f("neg", ng.into()) });
        cx.call(e("int.split_mul_uint_right", "isplit").i("lb", 64 * R as i64), || { let (lo, hi, ng) = a.split_mul_uint_right(&ub); O::ok().n("lo", &w(&lo)).n("hi", &w(&hi)).f("neg", ng.into()) });
        cx.call(e("int.checked_mul_uint_right", "ichecked").i("rb", 64 * R as i64), || riopt(a.checked_mul_uint_right(&ub).into()));
        cx.call(e("int.CheckedMul_uint", "ichecked").i("rb", 64 * N as i64), || riopt(CheckedMul::checked_mul(&a, &ub).into()));
        cx.call(e("int.op_mul_uint_rr", "ipanic").i("rb", 64 * N as i64), || ri(&(&a * &ub)));
        if it % 3 == 1 {
            cx.call(e("int.op_mul_uint_vv", "ipanic").i("rb", 64 * N as i64), || ri(&(a * ub)));
            cx.call(e("int.op_mul_uint_vr", "ipanic").i("rb", 64 * N as i64), || ri(&(a * &ub)));
            cx.call(e("int.op_mul_uint_rv", "ipanic").i("rb", 64 * N as i64), || ri(&(&a * ub)));
        }
    }
}

/// equal widths: widening forms, Checked<Int>, squares
fn signed_eq<const N: usize, const W: usize>(cx: &mut Cx, iters: usize)
where
    Uint<N>: ConcatMixed<Uint<N>, MixedOutput = Uint<W>>,
{
    for it in 0..iters {
        let av = ival(&mut cx.rng, N);
        let bv = ival(&mut cx.rng, N);
        let (a, b) = (si::<N>(&av), si::<N>(&bv));
        let e = |form: &str, sh: &str| iev("imul", form, sh, N, N, &av, &bv, false);
        cx.call(e("int.widening_mul", "iwide"), || { let r: Int<W> = a.widening_mul(&b); ri(&r) });
        let ub = u::<N>(&bv);
        cx.call(iev("imul", "int.widening_mul_uint", "iwide", N, N, &av, &bv, true), || { let r: Int<W> = a.widening_mul_uint(&ub); ri(&r) });
        if it % 2 == 0 {
            let (ca, cb_) = (Checked::new(a), Checked::new(b));
            cx.call(e("int.checked.op_mul_vv", "ichecked").i("rb", 64 * N as i64), || riopt((ca * cb_).0.into()));
            cx.call(e("int.checked.op_mul_rr", "ichecked").i("rb", 64 * N as i64), || riopt((&ca * &cb_).0.into()));
            cx.call(e("int.checked.op_mul_vr", "ichecked").i("rb", 64 * N as i64), || riopt((ca * &cb_).0.into()));
            cx.call(e("int.checked.op_mul_rv", "ichecked").i("rb", 64 * N as i64), || riopt((&ca * cb_).0.into()));
            cx.call(e("int.checked.op_mul_assign_v", "ichecked").i("rb", 64 * N as i64), || { let mut t = ca; t *= cb_; riopt(t.0.into()) });
            cx.call(e("int.checked.op_mul_assign_r", "ichecked").i("rb", 64 * N as i64), || { let mut t = ca; t *= &cb_; riopt(t.0.into()) });
        }
        let q = |form: &str, sh: &str| Ev::new("isq", form).s("sh", sh).i("ab", 64 * N as i64).n("a", &av);
        cx.call(q("int.widening_square", "wide"), || { let r: Uint<W> = a.widening_square(); r1(&r) });
        cx.call(q("int.checked_square", "checked"), || ropt(a.checked_square().into()));
        cx.call(q("int.wrapping_square", "wrap"), || r1(&a.wrapping_square()));
        cx.call(q("int.saturating_square", "sat"), || r1(&a.saturating_square()));
    }
}

// ------------------------------------------------------------------------------------------------
// boxed

fn rb(x: &BoxedUint) -> O {
    O::ok().n("r", &wb(x)).i("rp", x.bits_precision() as i64)
}
fn rbopt(x: Option<BoxedUint>) -> O {
    match x { Some(v) => rb(&v), None => O::none() }
}

fn boxed_pair(cx: &mut Cx, al: usize, bl: usize, it: usize) {
    let (av, bv) = mul_case(&mut cx.rng, al, bl);
    boxed_forms(cx, &av, &bv, it);
}

fn boxed_forms(cx: &mut Cx, av: &[u64], bv: &[u64], it: usize) {
    let (al, bl) = (av.len(), bv.len());
    let (a, b) = (bx(av), bx(bv));
    let e = |form: &str, sh: &str| ev(form, sh, al, bl, av, bv);
    cx.call(e("boxed.mul", "wide"), || rb(&a.mul(&b)));
    cx.call(e("boxed.wrapping_mul", "wrap"), || rb(&a.wrapping_mul(&b)));
    cx.call(e("boxed.CheckedMul", "checked"), || rbopt(CheckedMul::checked_mul(&a, &b).into()));
    cx.call(e("boxed.op_mul_rr", "panic"), || rb(&(&a * &b)));
    match it % 4 {
        0 => {
            cx.call(e("boxed.WideningMul_v", "wide"), || rb(&WideningMul::widening_mul(&a, b.clone())));
            cx.call(e("boxed.WideningMul_r", "wide"), || rb(&WideningMul::widening_mul(&a, &b)));
            cx.call(e("boxed.WrappingMul", "wrap"), || rb(&WrappingMul::wrapping_mul(&a, &b)));
        }
        1 => {
            cx.call(e("boxed.op_mul_vv", "op"), || rb(&(a.clone() * b.clone())));
            cx.call(e("boxed.op_mul_vr", "op"), || rb(&(a.clone() * &b)));
            cx.call(e("boxed.op_mul_rv", "op"), || rb(&(&a * b.clone())));
            cx.call(e("boxed.op_mul_assign_v", "op"), || { let mut t = a.clone(); t *= b.clone(); rb(&t) });
            cx.call(e("boxed.op_mul_assign_r", "op"), || { let mut t = a.clone(); t *= &b; rb(&t) });
        }
        2 => {
            let (wa, wb_) = (Wrapping(a.clone()), Wrapping(b.clone()));
            cx.call(e("boxed.wrapping.op_mul_vv", "wrap"), || rb(&(wa.clone() * wb_.clone()).0));
            cx.call(e("boxed.wrapping.op_mul_vr", "wrap"), || rb(&(wa.clone() * &wb_).0));
            cx.call(e("boxed.wrapping.op_mul_rv", "wrap"), || rb(&(&wa * wb_.clone()).0));
            cx.call(e("boxed.wrapping.op_mul_rr", "wrap"), || rb(&(&wa * &wb_).0));
            cx.call(e("boxed.wrapping.op_mul_assign_v", "wrap"), || { let mut t = wa.clone(); t *= wb_.clone(); rb(&t.0) });
            cx.call(e("boxed.wrapping.op_mul_assign_r", "wrap"), || { let mut t = wa.clone(); t *= &wb_; rb(&t.0) });
        }
        _ => {
            // commuted operands: the trailing-limb paths are not symmetric
            cx.call(ev("boxed.mul", "wide", bl, al, bv, av), || rb(&b.mul(&a)));
        }
    }
}

fn boxed_square(cx: &mut Cx, n: usize) {
    let sv = sq_case(&mut cx.rng, n);
    let x = bx(&sv);
    cx.call(evs("boxed.square", "wide", n, &sv), || rb(&x.square()));
    // squaring always equals multiplying the value by itself
    cx.call(ev("boxed.mul_self", "wide", n, n, &sv, &sv), || rb(&x.mul(&x)));
}

fn boxed(cx: &mut Cx, s: usize) {
    let mut it = 0;
    // equal lengths 1..=140, every one; the Karatsuba neighbourhoods more often
    for rep in 0..2 * s {
        for n in 1..=140usize {
            let hot = matches!(n, 31..=34 | 47..=53 | 63..=66 | 95..=105 | 127..=130 | 136..=140);
            if rep % 2 == 1 && !hot && n > 12 { continue; }
            boxed_pair(cx, n, n, it);
            boxed_square(cx, n);
            it += 1;
        }
    }
    // sparse operands whose only non-zero limbs sit around the top-level split (33 x 34 limbs: size 32, one
    // trailing limb on the left, two on the right): a row carry meets a full high word in the trailing rows
    {
        let vals = [MAX, 1, TOP, MAX - 1, 0];
        for t in 0..(40 * s) {
            let (mut a, mut b) = (vec![0u64; 33], vec![0u64; 34]);
            if t == 0 {
                a[30] = TOP; a[31] = MAX; a[32] = 1;
                b[32] = MAX; b[33] = MAX;
            } else {
                for i in 30..33 { a[i] = cx.rng.pick(&vals); }
                for i in 30..34 { b[i] = cx.rng.pick(&vals); }
            }
            boxed_forms(cx, &a, &b, 4 * t + (t % 2)); // forms of group 0 / 1 (widening trait, operators)
            it += 1;
        }
    }
    // unequal lengths: trailing limbs on the left, on the right, on both (odd overlap)
    let interesting = [1usize, 2, 3, 7, 16, 24, 25, 31, 32, 33, 34, 35, 40, 48, 49, 50, 51, 52, 53, 63, 64, 65, 66, 67, 80, 96, 97, 98, 99, 100, 104, 105, 127, 128, 129, 139, 140];
    for _ in 0..420 * s {
        let (al, bl) = if cx.rng.chance(3, 10) {
            // both operands leave trailing limbs at the top level: odd shorter operand (>= 33 limbs) and a
            // longer one, in either order
            let lo = 33 + 2 * cx.rng.below(54);
            let hi = cx.rng.range(lo + 1, 140);
            if cx.rng.coin() { (lo, hi) } else { (hi, lo) }
        } else {
            let al = if cx.rng.chance(3, 4) { cx.rng.pick(&interesting) } else { cx.rng.range(1, 140) };
            let bl = match cx.rng.below(4) {
                0 => (al + cx.rng.range(1, 3)).min(140),
                1 => al.saturating_sub(cx.rng.range(1, 3)).max(1),
                2 => cx.rng.pick(&interesting),
                _ => cx.rng.range(1, 140),
            };
            (al, bl)
        };
        boxed_pair(cx, al, bl, it);
        it += 1;
    }
}

fn main() {
    let mut cx = Cx::from_args("C03");
    let s = cx.scale;
    if cx.want("fixed") {
        fixed::<1, 2>(&mut cx, 70 * s);
        fixed::<2, 4>(&mut cx, 70 * s);
        fixed::<3, 6>(&mut cx, 50 * s);
        fixed::<4, 8>(&mut cx, 60 * s);
        fixed::<5, 10>(&mut cx, 40 * s);
        fixed::<6, 12>(&mut cx, 40 * s);
        fixed::<7, 14>(&mut cx, 40 * s);
        fixed::<8, 16>(&mut cx, 50 * s);
        fixed::<9, 18>(&mut cx, 40 * s);
        fixed::<10, 20>(&mut cx, 40 * s);
        fixed::<11, 22>(&mut cx, 40 * s);
        fixed::<12, 24>(&mut cx, 40 * s);
        fixed::<16, 32>(&mut cx, 140 * s);
        fixed::<32, 64>(&mut cx, 120 * s);
        fixed::<64, 128>(&mut cx, 80 * s);
        fixed::<128, 256>(&mut cx, 60 * s);
    }
    if cx.want("mixed") {
        mixed::<1, 2>(&mut cx, 40 * s);
        mixed::<2, 1>(&mut cx, 40 * s);
        mixed::<1, 4>(&mut cx, 30 * s);
        mixed::<4, 1>(&mut cx, 30 * s);
        mixed::<3, 2>(&mut cx, 30 * s);
        mixed::<2, 5>(&mut cx, 30 * s);
        mixed::<4, 8>(&mut cx, 30 * s);
        mixed::<8, 4>(&mut cx, 30 * s);
        mixed::<7, 9>(&mut cx, 25 * s);
        mixed::<12, 3>(&mut cx, 25 * s);
        mixed::<16, 8>(&mut cx, 25 * s);
        mixed::<8, 16>(&mut cx, 25 * s);
        mixed::<16, 32>(&mut cx, 15 * s);
        mixed::<32, 16>(&mut cx, 15 * s);
        mixed::<64, 32>(&mut cx, 8 * s);
        mixed::<16, 17>(&mut cx, 15 * s);
        mixed::<128, 64>(&mut cx, 4 * s);
        mixed_wide!(cx, 1, 2, 3, 30 * s);
        mixed_wide!(cx, 2, 1, 3, 30 * s);
        mixed_wide!(cx, 1, 3, 4, 30 * s);
        mixed_wide!(cx, 3, 2, 5, 30 * s);
        mixed_wide!(cx, 2, 4, 6, 30 * s);
        mixed_wide!(cx, 5, 3, 8, 30 * s);
        mixed_wide!(cx, 4, 8, 12, 20 * s);
        mixed_wide!(cx, 9, 7, 16, 20 * s);
        mixed_wide!(cx, 1, 15, 16, 20 * s);
    }
    if cx.want("limb") {
        limbs(&mut cx, 500 * s);
    }
    if cx.want("signed") {
        signed::<1, 1>(&mut cx, 50 * s);
        signed::<2, 2>(&mut cx, 50 * s);
        signed::<4, 4>(&mut cx, 40 * s);
        signed::<16, 16>(&mut cx, 25 * s);
        signed::<1, 2>(&mut cx, 30 * s);
        signed::<2, 1>(&mut cx, 30 * s);
        signed::<4, 2>(&mut cx, 30 * s);
        signed::<3, 5>(&mut cx, 30 * s);
        signed_eq::<1, 2>(&mut cx, 50 * s);
        signed_eq::<2, 4>(&mut cx, 50 * s);
        signed_eq::<3, 6>(&mut cx, 30 * s);
        signed_eq::<4, 8>(&mut cx, 40 * s);
        signed_eq::<16, 32>(&mut cx, 25 * s);
    }
    if cx.want("boxed") {
        boxed(&mut cx, s);
    }
    cx.finish();
}
