---------------------------- MODULE WordLemmas64 ----------------------------
(***************************************************************************)
(* Word-primitive lemmas at the REAL word size (B = 2^64), discharged by   *)
(* Apalache (SMT over unbounded integers) for ALL word values - the        *)
(* small-W exhaustive runs of algo/Words.tla establish the same formulas   *)
(* at W in {2,3,4}; here the one product b*c of `mac` is abstracted by a   *)
(* ranged variable p, which keeps every obligation linear.                 *)
(*   adc (src/primitives.rs 22-31): any carry-in word; carry-out <= 2      *)
(*   sbb (41-48): borrow consumed through its top bit, produced as a mask  *)
(*   mac (60-73): the WideWord sum cannot overflow; "hi cannot overflow"   *)
(* Run: apalache-mc check --init=Init --inv=Inv --length=0 WordLemmas64.tla *)
(***************************************************************************)
EXTENDS Integers
VARIABLES
  \* @type: Int;
  a,
  \* @type: Int;
  b,
  \* @type: Int;
  c,
  \* @type: Int;
  carry,
  \* @type: Int;
  p
B == 18446744073709551616
Init == /\ a \in Int /\ b \in Int /\ c \in Int /\ carry \in Int /\ p \in Int
        /\ 0 <= a /\ a < B /\ 0 <= b /\ b < B /\ 0 <= c /\ c < B /\ 0 <= carry /\ carry < B
        /\ 0 <= p /\ p <= (B - 1) * (B - 1)            \* p stands for b * c
Next == UNCHANGED <<a, b, c, carry, p>>

(* adc(lhs = a, rhs = b, carry) *)
AdcRet == a + b + carry
AdcOK == /\ AdcRet < B * B
         /\ (AdcRet % B) + (AdcRet \div B) * B = a + b + carry
         /\ AdcRet \div B <= 2

(* sbb(lhs = a, rhs = b, borrow = carry): ret = a.wrapping_sub(b + (borrow >> 63)) on WideWord *)
Bb == IF carry >= B \div 2 THEN 1 ELSE 0
SbbRet == IF a >= b + Bb THEN a - (b + Bb) ELSE a - (b + Bb) + B * B
SbbOK == /\ (SbbRet % B) = (IF a >= b + Bb THEN a - b - Bb ELSE a - b - Bb + B)
         /\ (SbbRet \div B) = (IF a >= b + Bb THEN 0 ELSE B - 1)        \* borrow mask

(* mac(a, b, c, carry) with p = b * c *)
MacRet == a + p
Lo == MacRet % B
Hi == MacRet \div B
Lo2 == (Lo + carry) % B
Cf == (Lo + carry) \div B
MacOK == /\ MacRet < B * B                 \* the WideWord sum cannot overflow
         /\ Hi + Cf < B                    \* "we can't overflow hi"
         /\ Lo2 + ((Hi + Cf) % B) * B = a + p + carry

Inv == AdcOK /\ SbbOK /\ MacOK
=============================================================================
