------------------------------- MODULE MontyApi -------------------------------
(***************************************************************************)
(* L3 state machine of Montgomery-form values (C08), at small concrete     *)
(* moduli.  Each register carries its ghost value g in Z/mZ and, computed  *)
(* independently by arithmetic on representatives only, the stored         *)
(* representative x = g*R mod m.  TLC explores every operation history up  *)
(* to MaxLen and checks that the representative stays canonical and tracks *)
(* the ghost (the Montgomery homomorphism as a state invariant).  The same *)
(* exploration emits each history as a JSON program with operand *roles*;  *)
(* the recorder executes the programs on the real MontyForm / ConstMonty-   *)
(* Form / BoxedMontyForm at real widths and tla/judge/JC08.tla validates   *)
(* every prefix against the same ghost semantics (BigNat).                 *)
(***************************************************************************)
EXTENDS Naturals, Sequences, TLC, Json
CONSTANTS Moduli,       \* set of odd moduli explored
          RBits,        \* R = 2^RBits
          MaxLen,       \* history length bound
          EmitFor,      \* the modulus for which programs are printed (one copy of each)
          Window        \* operands are drawn from the last Window registers (keeps long random histories balanced)

VARIABLES m, prog, ghost, rep, done

R == 2 ^ RBits
Roles == {"zero", "one", "m-1", "half+", "half-", "rand", "big"}
Un    == {"neg", "double", "square", "halve", "squareobj"}
Bin   == {"add", "sub", "mul", "mulobj"}

RoleVal(r, k) ==                      \* the integer handed to `new` (not necessarily reduced)
  CASE r = "zero"  -> 0
    [] r = "one"   -> 1
    [] r = "m-1"   -> m - 1
    [] r = "half+" -> (m + 1) \div 2
    [] r = "half-" -> (m - 1) \div 2
    [] r = "rand"  -> (7 * k + 3) % R
    [] r = "big"   -> R - 1

RInv == CHOOSE x \in 0..m : (x * R) % m = 1 % m          \* exists: m odd
ToMonty(g)   == (g * R) % m
FromMonty(x) == (x * RInv) % m
MontMul(x, y) == (x * y * RInv) % m                       \* what montgomery_reduction(x*y) denotes
HalveRep(x)  == IF x % 2 = 0 THEN x \div 2 ELSE (x + m) \div 2

Init == m \in Moduli /\ prog = <<>> /\ ghost = <<>> /\ rep = <<>> /\ done = FALSE

Push(step, g, x) == /\ prog'  = Append(prog, step)
                    /\ ghost' = Append(ghost, g)
                    /\ rep'   = Append(rep, x)
                    /\ m' = m /\ done' = FALSE

New(r) == LET v == RoleVal(r, Len(prog)) IN
          Push([op |-> "new", role |-> r], v % m, MontMul(v % R, (R * R) % m))   \* reduction of v * R^2
ConstOf(o) == Push([op |-> o], IF o = "zero" THEN 0 ELSE 1 % m, IF o = "zero" THEN 0 ELSE R % m)

Unary(o, a) ==
  LET g == ghost[a]  x == rep[a] IN
  CASE o = "neg"    -> Push([op |-> o, a |-> a], (m - g) % m, (m - x) % m)
    [] o = "double" -> Push([op |-> o, a |-> a], (2 * g) % m, (x + x) % m)
    [] o \in {"square", "squareobj"} -> Push([op |-> o, a |-> a], (g * g) % m, MontMul(x, x))
    [] o = "halve"  -> Push([op |-> o, a |-> a], FromMonty(HalveRep(x)), HalveRep(x))

Binary(o, a, b) ==
  LET g == ghost[a] h == ghost[b] x == rep[a] y == rep[b] IN
  CASE o = "add" -> Push([op |-> o, a |-> a, b |-> b], (g + h) % m, (x + y) % m)
    [] o = "sub" -> Push([op |-> o, a |-> a, b |-> b], (g + m - h) % m, (x + m - y) % m)
    [] o \in {"mul", "mulobj"} -> Push([op |-> o, a |-> a, b |-> b], (g * h) % m, MontMul(x, y))

Select(a, b, c) == Push([op |-> "select", a |-> a, b |-> b, c |-> c],
                        IF c = 1 THEN ghost[b] ELSE ghost[a], IF c = 1 THEN rep[b] ELSE rep[a])

Regs == (IF Len(prog) > Window THEN Len(prog) - Window + 1 ELSE 1)..Len(prog)
Extend == /\ Len(prog) < MaxLen
          /\ \/ \E r \in Roles : New(r)
             \/ \E o \in {"zero", "one"} : ConstOf(o)
             \/ \E o \in Un : \E a \in Regs : Unary(o, a)
             \/ \E o \in Bin : \E a \in Regs : \E b \in Regs : Binary(o, a, b)
             \/ \E a \in Regs : \E b \in Regs : \E c \in {0, 1} : a # b /\ Select(a, b, c)
Finish == Len(prog) = MaxLen /\ ~done /\ done' = TRUE /\ UNCHANGED <<m, prog, ghost, rep>>
Next == Extend \/ Finish

Spec == Init /\ [][Next]_<<m, prog, ghost, rep, done>>

(* C08 in state form *)
MontyCanonical == \A i \in 1..Len(rep) : rep[i] < m
MontyTracksZm  == \A i \in 1..Len(rep) : /\ rep[i] = ToMonty(ghost[i])
                                         /\ FromMonty(rep[i]) = ghost[i]
HalveIsHalf    == \A i \in 1..Len(prog) : prog[i].op = "halve" => (2 * ghost[i]) % m = ghost[prog[i].a]

(* scenario emission: one line per complete history (R3) *)
LastArith == Len(prog) = MaxLen /\ prog[MaxLen].op \notin {"new", "zero", "one"}
Emit == (done /\ m = EmitFor /\ LastArith) => PrintT(<<"PROG", ToJson(prog)>>)
=============================================================================
