---- MODULE KnuthBN ----
EXTENDS BigNat, Naturals, Sequences, TLC
CONSTANTS W, L, YC
Pow2W == Shl(One, W)
MAXW == Pow2W \ominus One
Lo(x) == Mod2k(x, W)
Hi(x) == Shr(x, W)
RECURSIVE ValR(_,_)
ValR(x,i) == IF i = 0 THEN Zero ELSE Shl(x[i], W*(i-1)) \oplus ValR(x,i-1)
Val(x) == ValR(x, Len(x))
Mac(a,b,c,carry) == LET r == a \oplus (b \otimes c) \oplus carry IN <<Lo(r), Hi(r)>>
\* borrow is Zero or MAXW (mask encoding)
Sbb(a,b,borrow) == LET sub == b \oplus (IF borrow = Zero THEN Zero ELSE One)
                   IN IF Lt(a, sub) THEN <<(a \oplus Pow2W) \ominus sub, MAXW>> ELSE <<a \ominus sub, Zero>>
Adc(a,b,c) == LET r == a \oplus b \oplus c IN <<Lo(r), Hi(r)>>
WSub(a,b) == Lo((a \oplus Pow2W) \ominus b)            \* wrapping_sub
Recip(d) == Div(Shl(One, 2*W) \ominus One, d) \ominus Pow2W
Div2by1(u1,u0,d,v) ==
  LET q10 == (v \otimes u1) \oplus (Shl(u1, W) \oplus u0)
      q1a == Lo(Hi(q10) \oplus One)
      q0  == Lo(q10)
      r0  == WSub(u0, Lo(q1a \otimes d))
      gt  == Lt(q0, r0)
      q1b == IF gt THEN WSub(q1a, One) ELSE q1a
      r1  == IF gt THEN Lo(r0 \oplus d) ELSE r0
      ge  == Le(d, r1)
  IN <<IF ge THEN Lo(q1b \oplus One) ELSE q1b, IF ge THEN r1 \ominus d ELSE r1>>
Div3by2(u2,u1,u0,v1,v0,rv) ==
  LET qm == (u2 = v1)
      d21 == Div2by1(IF qm THEN Zero ELSE u2, u1, v1, rv)
      quo0 == IF qm THEN MAXW ELSE d21[1]
      rem0 == IF qm THEN u2 \oplus u1 ELSE d21[2]
      Step(qr) == LET quo == qr[1] rem == qr[2]
                      done == (Hi(rem) # Zero) \/ Le(quo \otimes v0, Shl(rem, W) \oplus u0)
                  IN IF done THEN <<quo, rem, qr[3]>> ELSE <<WSub(quo, One), rem \oplus v1, qr[3]+1>>
      r2 == Step(Step(<<quo0, rem0, 0>>))
  IN <<r2[1], qm, r2[3]>>
ShlLimbs(x, s) == [i \in 1..Len(x) |-> Lo(Shl(x[i], s)) \oplus (IF i > 1 THEN Shr(x[i-1], W-s) ELSE Zero)]
ShlHi(x, s) == Shr(x[Len(x)], W-s)
LeadingZeros(w) == W - BitLen(w)
RECURSIVE SubMul(_,_,_,_,_,_,_)
SubMul(x, y, quo, xi, yc, i, cb) ==
  IF i >= yc THEN <<x, cb[1], cb[2]>>
  ELSE LET m == Mac(Zero, y[i+1], quo, cb[1])
           k == xi + i + 1 - yc + 1
           s == Sbb(x[k], m[1], cb[2])
       IN SubMul([x EXCEPT ![k] = s[1]], y, quo, xi, yc, i+1, <<m[2], s[2]>>)
RECURSIVE AddBack(_,_,_,_,_,_,_)
AddBack(x, y, on, xi, yc, i, carry) ==
  IF i >= yc THEN x
  ELSE LET k == xi + i + 1 - yc + 1
           a == Adc(x[k], IF on THEN y[i+1] ELSE Zero, carry)
       IN AddBack([x EXCEPT ![k] = a[1]], y, on, xi, yc, i+1, a[2])
RECURSIVE Loop(_,_,_,_,_,_,_)
Loop(x, xhi, y, rv, xi, yc, path) ==
  LET d3 == Div3by2(xhi, x[xi+1], x[xi], y[yc], y[yc-1], rv)
      quo == d3[1]
      sm == SubMul(x, y, quo, xi, yc, 0, <<Zero,Zero>>)
      bfin == Sbb(xhi, sm[2], sm[3])[2]
      ab == bfin # Zero
      x2 == AddBack(sm[1], y, ab, xi, yc, 0, Zero)
      quo2 == IF ab THEN WSub(quo, One) ELSE quo
      xhi2 == x2[xi+1]
      x3 == [x2 EXCEPT ![xi+1] = quo2]
      path2 == Append(path, <<d3[2], d3[3], ab>>)
  IN IF xi = yc - 1 THEN <<x3, xhi2, path2>> ELSE Loop(x3, xhi2, y, rv, xi-1, yc, path2)
DivRemVartime(n, d, ll, yc) ==
  LET shift == LeadingZeros(d[yc])
      x == ShlLimbs(n, shift)
      xhi == IF shift = 0 THEN Zero ELSE ShlHi(n, shift)
      y == ShlLimbs(d, shift)
      rv == Recip(y[yc])
      lp == Loop(x, xhi, y, rv, ll-1, yc, <<>>)
      xs == lp[1]
      remsh == [i \in 1..yc |-> IF i < yc THEN xs[i] ELSE lp[2]]
      rval == Shr(Val(remsh), shift)
      q == [i \in 1..ll |-> IF i-1 <= ll - yc THEN xs[i + yc - 1] ELSE Zero]
  IN <<Val(q), rval, lp[3]>>
\* ---- small-W exhaustive ----
NatLimbs(n) == [1..n -> 0..(2^W - 1)]
ToBN(x) == [i \in 1..Len(x) |-> FromInt(x[i])]
VARIABLES n, d, out
Init == /\ n \in NatLimbs(L) /\ d \in {dd \in NatLimbs(YC) : dd[YC] # 0} /\ out = <<>>
Next == out = <<>> /\ out' = DivRemVartime(ToBN(n), ToBN(d), L, YC) /\ UNCHANGED <<n,d>>
Spec == Init /\ [][Next]_<<n,d,out>>
Exact == out # <<>> => LET nv == Val(ToBN(n)) dv == Val(ToBN(d)) IN (out[1] = Div(nv, dv) /\ out[2] = Mod(nv, dv))
====
