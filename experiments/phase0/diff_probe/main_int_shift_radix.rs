use crypto_bigint::*;
use num_bigint::{BigInt, BigUint, Sign};
use std::panic::{catch_unwind, AssertUnwindSafe};
static KINDS: std::sync::Mutex<std::collections::BTreeMap<String,u32>> = std::sync::Mutex::new(std::collections::BTreeMap::new());
fn fail(what: &str, detail: String) { let mut m = KINDS.lock().unwrap(); let e = m.entry(what.to_string()).or_insert(0u32); *e += 1; if *e <= 3 { let mut d = detail; d.truncate(300); println!("FAIL {}: {}", what, d); } }
fn i128v() -> Vec<i128> { let mut v = vec![i128::MIN, i128::MIN+1, -1, 0, 1, i128::MAX, i128::MAX-1, 1i128<<64, -(1i128<<64), (1i128<<64)-1, -(1i128<<63), 1i128<<63, 3, -3, 8, -8, 7, -7, 1i128<<126, -(1i128<<126), i128::MAX-(1i128<<64), i64::MAX as i128, i64::MIN as i128, 0x1234_5678_9abc_def0_1122_3344_5566_7788, -0x1234_5678_9abc_def0_1122_3344_5566_7788];
  let mut s: u128 = 0x9E3779B97F4A7C15_F39CC0605CEDC834; for _ in 0..40 { s ^= s << 13; s ^= s >> 7; s ^= s << 17; v.push(s as i128); v.push((s >> 70) as i128); v.push(-((s >> 70) as i128)); } v }
fn to_i(x: i128) -> I128 { I128::from_i128(x) }
fn from_i(x: &I128) -> i128 { let w = x.as_uint().to_words(); ((w[1] as u128) << 64 | w[0] as u128) as i128 }
fn opt<T>(c: ConstCtOption<T>) -> Option<T> { Option::from(c) }
fn main() {
  std::panic::set_hook(Box::new(|_| {}));
  let vals = i128v();
  for &a in &vals { for &b in &vals {
    let (ia, ib) = (to_i(a), to_i(b));
    if from_i(&ia) != a { fail("from_i128 roundtrip", format!("{}", a)); }
    // add/sub/mul
    if opt(ia.checked_add(&ib)).map(|x| from_i(&x)) != a.checked_add(b) { fail("checked_add", format!("{} {}", a, b)); }
    if Option::<I128>::from(ia.checked_sub(&ib)).map(|x| from_i(&x)) != a.checked_sub(b) { fail("checked_sub", format!("{} {}", a, b)); }
    if from_i(&ia.wrapping_add(&ib)) != a.wrapping_add(b) { fail("wrapping_add", format!("{} {}", a, b)); }
    if from_i(&ia.wrapping_sub(&ib)) != a.wrapping_sub(b) { fail("wrapping_sub", format!("{} {}", a, b)); }
    let (s, o) = ia.overflowing_add(&ib); if (from_i(&s), bool::from(o)) != a.overflowing_add(b) { fail("overflowing_add", format!("{} {}", a, b)); }
    let cm: Option<I128> = CheckedMul::checked_mul(&ia, &ib).into(); if cm.map(|x| from_i(&x)) != a.checked_mul(b) { fail("checked_mul", format!("{} {}", a, b)); }
    let wide: I256 = ia.widening_mul(&ib); let exp = BigInt::from(a) * BigInt::from(b);
    let got = { let w = wide.as_uint().to_le_bytes(); BigInt::from_signed_bytes_le(&w) }; if got != exp { fail("widening_mul", format!("{} {}", a, b)); }
    // cmp
    if (ia < ib) != (a < b) || (ia == ib) != (a == b) || ia.cmp(&ib) != a.cmp(&b) { fail("cmp", format!("{} {}", a, b)); }
    // div
    if b != 0 {
      let nz = ib.to_nz().unwrap();
      let (q, r) = ia.checked_div_rem(&nz); let qe = a.checked_div(b); let re = if a == i128::MIN && b == -1 { 0 } else { a % b };
      if opt(q).map(|x| from_i(&x)) != qe || from_i(&r) != re { fail("checked_div_rem", format!("{} {} got r={}", a, b, from_i(&r))); }
      let (q, r) = ia.checked_div_rem_vartime(&nz);
      if opt(q).map(|x| from_i(&x)) != qe || from_i(&r) != re { fail("checked_div_rem_vartime", format!("{} {}", a, b)); }
      // floor
      let (ba, bb) = (BigInt::from(a), BigInt::from(b));
      let mut q0 = &ba / &bb; let mut r0 = &ba % &bb; if r0.sign() != Sign::NoSign && ((r0.sign() == Sign::Minus) != (bb.sign() == Sign::Minus)) { q0 -= 1; r0 += &bb; }
      let (q, r) = ia.checked_div_rem_floor(&nz);
      let qok = match opt(q) { Some(x) => BigInt::from(from_i(&x)) == q0, None => q0 > BigInt::from(i128::MAX) };
      if !qok { fail("floor quotient", format!("{} {}", a, b)); }
      if BigInt::from(from_i(&r)) != r0 { fail("floor remainder", format!("{} {} got {} want {}", a, b, from_i(&r), r0)); }
      // by uint
      if b > 0 { let ub = U128::from_u128(b as u128).to_nz().unwrap();
        let (q, r) = ia.div_rem_uint(&ub); if from_i(&q) != a / b || from_i(&r) != a % b { fail("div_rem_uint", format!("{} {}", a, b)); }
        let (q, r) = ia.div_rem_floor_uint(&ub); let mut q0 = &ba / &bb; let mut r0 = &ba % &bb; if r0.sign() == Sign::Minus { q0 -= 1; r0 += &bb; }
        if BigInt::from(from_i(&q)) != q0 || BigInt::from(BigUint::from_bytes_le(&r.to_le_bytes())) != r0 { fail("div_rem_floor_uint", format!("{} {}", a, b)); }
        let nr = ia.normalized_rem(&ub); if BigInt::from(BigUint::from_bytes_le(&nr.to_le_bytes())) != r0 { fail("normalized_rem", format!("{} {}", a, b)); }
      }
    }
  }
    let ia = to_i(a);
    if opt(ia.checked_neg()).map(|x| from_i(&x)) != a.checked_neg() { fail("checked_neg", format!("{}", a)); }
    if from_i(&ia.wrapping_neg()) != a.wrapping_neg() { fail("wrapping_neg", format!("{}", a)); }
    let (m, s) = ia.abs_sign(); if bool::from(s) != (a < 0) || m.to_le_bytes() != a.unsigned_abs().to_le_bytes() { fail("abs_sign", format!("{}", a)); }
    if bool::from(ia.is_negative()) != (a<0) || bool::from(ia.is_positive()) != (a>0) { fail("sign preds", format!("{}", a)); }
    for sh in 0..=130u32 { 
      let e = if sh >= 128 { if a < 0 { -1 } else { 0 } } else { a >> sh };
      if from_i(&ia.wrapping_shr(sh)) != e { fail("int wrapping_shr", format!("{} >> {}", a, sh)); }
      let r = catch_unwind(AssertUnwindSafe(|| ia.shr(sh))); match r { Ok(v) => if sh >= 128 || from_i(&v) != e { fail("int shr", format!("{} >> {}", a, sh)); }, Err(_) => if sh < 128 { fail("int shr panic", format!("{} >> {}", a, sh)); } }
      let el = if sh >= 128 { 0 } else { ((a as u128) << sh) as i128 };
      if from_i(&ia.wrapping_shl(sh)) != el { fail("int wrapping_shl", format!("{} << {}", a, sh)); }
      let ua = U128::from_u128(a as u128); let eu = if sh >= 128 { 0 } else { (a as u128) >> sh }; let elu = if sh >= 128 { 0 } else { (a as u128) << sh };
      if ua.wrapping_shr(sh).to_le_bytes() != eu.to_le_bytes() || ua.wrapping_shr_vartime(sh).to_le_bytes() != eu.to_le_bytes() { fail("uint shr", format!("{} >> {}", a, sh)); }
      if ua.wrapping_shl(sh).to_le_bytes() != elu.to_le_bytes() || ua.wrapping_shl_vartime(sh).to_le_bytes() != elu.to_le_bytes() { fail("uint shl", format!("{} << {}", a, sh)); }
      if bool::from(ua.bit(sh)) != (sh < 128 && ((a as u128) >> sh) & 1 == 1) || ua.bit_vartime(sh) != (sh < 128 && ((a as u128) >> sh) & 1 == 1) { fail("bit", format!("{} bit {}", a, sh)); }
      let bx = BoxedUint::from(a as u128);
      if &*bx.wrapping_shr(sh).to_le_bytes() != eu.to_le_bytes() || &*bx.wrapping_shl(sh).to_le_bytes() != elu.to_le_bytes() { fail("boxed shift", format!("{} {}", a, sh)); }
      if &*bx.wrapping_shr_vartime(sh).to_le_bytes() != eu.to_le_bytes() || &*bx.wrapping_shl_vartime(sh).to_le_bytes() != elu.to_le_bytes() { fail("boxed shift vartime", format!("{} {}", a, sh)); }
    }
    let ua = U128::from_u128(a as u128); let u = a as u128;
    if ua.bits() != 128 - u.leading_zeros() || ua.bits_vartime() != 128 - u.leading_zeros() || ua.leading_zeros() != u.leading_zeros() || ua.trailing_zeros() != u.trailing_zeros() || ua.trailing_ones() != u.trailing_ones() || ua.trailing_zeros_vartime() != u.trailing_zeros() || ua.trailing_ones_vartime() != u.trailing_ones() { fail("bit scans", format!("{}", u)); }
    let r: I256 = ia.resize(); let w = r.as_uint().to_le_bytes(); if BigInt::from_signed_bytes_le(&w) != BigInt::from(a) { fail("int resize up", format!("{}", a)); }
  }
  // hex nibble alphabet
  for c in 0u16..=255 { let s = [b'0', c as u8]; let st = String::from_utf8_lossy(&s).to_string(); if !st.is_ascii() { continue; }
    let hex = format!("{:0>14}{}", "", ""); let _ = hex;
    let full = format!("00000000000000{}", st);
    let r = catch_unwind(AssertUnwindSafe(|| U64::from_be_hex(&full)));
    let valid = (c as u8 as char).is_ascii_hexdigit();
    match r { Ok(v) => if !valid || v.to_words()[0] != u64::from_str_radix(&st, 16).unwrap() { fail("from_be_hex accepts", format!("{:?}", st)); }, Err(_) => if valid { fail("from_be_hex rejects valid", format!("{:?}", st)); } }
    let r = BoxedUint::from_be_hex(&full, 64); if bool::from(r.is_some()) != valid { fail("boxed from_be_hex", format!("{:?}", st)); }
  }
  // radix parse edge cases
  let cases: Vec<(&str, u32)> = vec![("0",10),("00",10),("+0",10),("+",10),("",10),("_",10),("1_",10),("_1",10),("1__2",10),("+_1",10),("1_2",10),("18446744073709551615",10),("18446744073709551616",10),("0018446744073709551615",10),("1_8446744073709551615",10),("zz",36),("ZZ",36),("z",35),("-1",10),("1 ",10),("ffffffffffffffff",16),("10000000000000000",16),("0_0",10),("+00_1",2),("2",2),("1111111111111111111111111111111111111111111111111111111111111111",2),("10000000000000000000000000000000000000000000000000000000000000000",2),("3333_3333_3333_3333_3333_3333_3333_3333",4),("+",2),("é",10)];
  for (s, radix) in cases { let r = catch_unwind(AssertUnwindSafe(|| U64::from_str_radix_vartime(s, radix)));
    let rb = catch_unwind(AssertUnwindSafe(|| BoxedUint::from_str_radix_with_precision_vartime(s, radix, 64)));
    let rv = catch_unwind(AssertUnwindSafe(|| BoxedUint::from_str_radix_vartime(s, radix).map(|x| (x.nlimbs(), x.to_string()))));
    println!("radix {:>2} {:<70} U64={:?} boxed64={:?} boxed={:?}", radix, format!("{:?}", s), r.map(|x| x.map(|v| v.to_words()[0])).map_err(|_| "PANIC"), rb.map(|x| x.map(|v| v.to_string())).map_err(|_| "PANIC"), rv.map_err(|_| "PANIC")); }
  println!("kinds={:?}", KINDS.lock().unwrap());
}
