SPECIFICATION Spec
CONSTANTS W = 4
 N = 3
 MAXLEN = 4
 Radices = {2, 4, 16}
INVARIANT DecodeOK
CHECK_DEADLOCK FALSE
