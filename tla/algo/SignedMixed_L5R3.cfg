SPECIFICATION Spec
CONSTANTS LB = 5
 RB = 3
INVARIANT CheckedOK
INVARIANT WideningOK
INVARIANT SplitOK
INVARIANT UintOK
INVARIANT UintRightOK
INVARIANT WideningUintOK
CHECK_DEADLOCK FALSE
