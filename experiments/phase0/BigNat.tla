---- MODULE BigNat ----
EXTENDS Naturals, Sequences
\* naturals as little-endian byte sequences, canonical (no trailing zero byte); zero = <<>>
Zero == <<>>
RECURSIVE Trim(_)
Trim(x) == IF Len(x) > 0 /\ x[Len(x)] = 0 THEN Trim(SubSeq(x,1,Len(x)-1)) ELSE x
Get(x,i) == IF i <= Len(x) THEN x[i] ELSE 0
Max(a,b) == IF a > b THEN a ELSE b
FromInt(k) == LET RECURSIVE go(_) go(n) == IF n = 0 THEN <<>> ELSE <<n % 256>> \o go(n \div 256) IN go(k)
PureAdd(x,y) ==
  LET n == Max(Len(x),Len(y))
      RECURSIVE go(_,_)
      go(i,c) == IF i > n THEN (IF c > 0 THEN <<c>> ELSE <<>>)
                 ELSE LET s == Get(x,i)+Get(y,i)+c IN <<s % 256>> \o go(i+1, s \div 256)
  IN go(1,0)
\* multiply by a single byte and shift
MulByte(x,b,sh) ==
  LET RECURSIVE go(_,_)
      go(i,c) == IF i > Len(x) THEN (IF c > 0 THEN <<c>> ELSE <<>>)
                 ELSE LET s == x[i]*b+c IN <<s % 256>> \o go(i+1, s \div 256)
  IN [k \in 1..sh |-> 0] \o go(1,0)
PureMul(x,y) ==
  LET RECURSIVE go(_)
      go(j) == IF j > Len(y) THEN <<>> ELSE PureAdd(MulByte(x,y[j],j-1), go(j+1))
  IN Trim(go(1))
Add(x,y) == PureAdd(x,y)
Mul(x,y) == PureMul(x,y)
====
