SPECIFICATION Spec
CONSTANTS W = 3
 Mode = "fixed"
 SIZE = 4
 BASE = 2
 LL = 1
 RL = 1
 MAXRED = 2
 Pinned = FALSE
INVARIANT Exact
CHECK_DEADLOCK FALSE
