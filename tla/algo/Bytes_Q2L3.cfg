SPECIFICATION Spec
CONSTANTS Q = 2
 LB = 3
 MaxLen = 7
 MaxPrec = 15
 Mut = 0
INVARIANT BEOK
INVARIANT LEOK
INVARIANT RoundTripOK
CHECK_DEADLOCK FALSE
