SPECIFICATION Spec
CONSTANTS W = 2
 L = 4
 YC = 4
 Mode = "ct"
INVARIANT Exact
INVARIANT PreHolds
INVARIANT PreHoldsEverywhere
CHECK_DEADLOCK FALSE
