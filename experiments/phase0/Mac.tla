---- MODULE Mac ----
EXTENDS Integers
VARIABLES
  \* @type: Int;
  a,
  \* @type: Int;
  b,
  \* @type: Int;
  c,
  \* @type: Int;
  carry,
  \* @type: Int;
  p
B == 2^64
Init == /\ a \in Int /\ b \in Int /\ c \in Int /\ carry \in Int /\ p \in Int
        /\ 0 <= a /\ a < B /\ 0 <= b /\ b < B /\ 0 <= c /\ c < B /\ 0 <= carry /\ carry < B
        \* p stands for b*c: only its range is used (keeps the problem linear)
        /\ 0 <= p /\ p <= (B-1)*(B-1)
Next == UNCHANGED <<a,b,c,carry,p>>
\* code: ret = a + b*c (WideWord, no overflow claimed); lo,hi; (lo2,cf) = lo + carry overflowing; hi2 = hi wrapping_add cf
Ret == a + p
Lo == Ret % B
Hi == Ret \div B
Lo2 == (Lo + carry) % B
Cf == (Lo + carry) \div B
Hi2 == (Hi + Cf) % B
Inv == /\ Ret < B*B                 \* the WideWord sum cannot overflow
       /\ Hi + Cf < B               \* "we can't overflow hi"
       /\ Lo2 + Hi2*B = a + p + carry
====
