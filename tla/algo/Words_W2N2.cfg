SPECIFICATION Spec
CONSTANTS W = 2
 N = 2
INVARIANT AdcOK
INVARIANT SbbOK
INVARIANT MacOK
INVARIANT PredOK
INVARIANT CmpOK
CHECK_DEADLOCK FALSE
