SPECIFICATION Spec
CONSTANTS J = 8
 BITS = 9
 HEAD = 10
INVARIANT Converges
INVARIANT NoOverflow
INVARIANT DRange
INVARIANT SomeIffCoprime
INVARIANT InverseOK
CHECK_DEADLOCK FALSE
