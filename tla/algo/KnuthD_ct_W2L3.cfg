SPECIFICATION Spec
CONSTANTS W = 2
 L = 3
 YC = 2
 Mode = "ct"
INVARIANT Exact
INVARIANT PreHolds
INVARIANT PreHoldsEverywhere
CHECK_DEADLOCK FALSE
