------------------------------ MODULE HexNibble ------------------------------
(***************************************************************************)
(* The branch-free hex decoder of src/uint/encoding.rs 261-290, on i16 /   *)
(* u16 bit patterns, for ALL 65 536 pairs of input bytes:                  *)
(*   decode_nibble(b): -1 plus, for each of the three digit ranges, the    *)
(*       masked term (((lo - b) & (b - hi)) >> 8) & (b - offset)           *)
(*   decode_hex_byte([h, l]): byte = (hi << 4) | lo as u16; err = byte >> 8 *)
(* err is zero exactly when both characters are hexadecimal digits, and    *)
(* then the byte is 16*value(h) + value(l): non-hex characters (including  *)
(* the neighbours '/', ':', '@', 'G', '`', 'g' and 0x80..0xff) are         *)
(* rejected, never decoded.                                                *)
(***************************************************************************)
EXTENDS Integers, TLC
M == 65536
Pat(v) == ((v % M) + M) % M                         \* i16 value -> 16-bit pattern
Sgn(p) == IF p >= 32768 THEN p - M ELSE p           \* pattern -> i16 value
RECURSIVE AndP(_, _, _)
AndP(x, y, i) == IF i = 0 THEN 0 ELSE (IF x % 2 = 1 /\ y % 2 = 1 THEN 1 ELSE 0) + 2 * AndP(x \div 2, y \div 2, i - 1)
RECURSIVE OrP(_, _, _)
OrP(x, y, i) == IF i = 0 THEN 0 ELSE (IF x % 2 = 1 \/ y % 2 = 1 THEN 1 ELSE 0) + 2 * OrP(x \div 2, y \div 2, i - 1)
And16(a, b) == Sgn(AndP(Pat(a), Pat(b), 16))       \* i16 & i16
Sar8(a) == IF a >= 0 THEN a \div 256 ELSE -((-a + 255) \div 256)   \* arithmetic >> 8 on i16 (floor)
Term(byte, lo, hi, off) == And16(Sar8(And16(lo - byte, byte - hi)), byte - off)
DecodeNibble(src) ==                                \* returns the u16 pattern of `ret as u16`
  Pat(-1 + Term(src, 47, 58, 47) + Term(src, 64, 71, 54) + Term(src, 96, 103, 86))
DecodeHexByte(h, l) ==
  LET hi == DecodeNibble(h)  lo == DecodeNibble(l)
      byte == OrP((hi * 16) % M, lo, 16)
  IN [result |-> byte % 256, err |-> byte \div 256]

IsHex(b) == (b >= 48 /\ b <= 57) \/ (b >= 65 /\ b <= 70) \/ (b >= 97 /\ b <= 102)
HexVal(b) == IF b <= 57 THEN b - 48 ELSE IF b <= 70 THEN b - 55 ELSE b - 87

VARIABLES h, l
Init == h \in 0..255 /\ l \in 0..255
Next == UNCHANGED <<h, l>>
Spec == Init /\ [][Next]_<<h, l>>
NibbleOK == DecodeNibble(h) = (IF IsHex(h) THEN HexVal(h) ELSE M - 1)
ByteOK == LET d == DecodeHexByte(h, l) IN
          /\ (d.err = 0) = (IsHex(h) /\ IsHex(l))
          /\ (IsHex(h) /\ IsHex(l)) => d.result = 16 * HexVal(h) + HexVal(l)
=============================================================================
