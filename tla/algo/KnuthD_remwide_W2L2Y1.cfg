SPECIFICATION Spec
CONSTANTS W = 2
 L = 2
 YC = 1
 Mode = "remwide"
INVARIANT Exact
INVARIANT PreHoldsEverywhere
CHECK_DEADLOCK FALSE
