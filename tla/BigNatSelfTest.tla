--------------------------- MODULE BigNatSelfTest ---------------------------
(* TLC checks, for every exported BigNat operator, that the value computed  *)
(* by the Java override equals the TLA+ reference definition.               *)
EXTENDS BigNat, TLC
CONSTANTS SmallMax,                     \* exhaustive range 0..SmallMax for both operands
          UseBig                        \* also the structured operands up to 130 bits (slow: reference algorithms)
VARIABLES x, y, ph

Ks == {8, 9, 16, 31, 32, 63, 64, 65, 128, 129}
Big == { Ref_Pow2(k) : k \in Ks } \cup { Ref_Sub(Ref_Pow2(k), One) : k \in Ks }
       \cup { Ref_Add(Ref_Pow2(k), One) : k \in Ks }
       \cup { <<0,255,0,255,0,255,0,255,1>>, <<255,0,255,0,255,0,255,0,255,0,255>>,
              <<1,2,3,4,5,6,7,8,9,10,11,12,13,14,15,16,17>>, <<0,0,0,0,0,0,0,0,128>>,
              <<7,0,0,0,0,0,0,0,0,0,0,0,0,0,0,0,1>>, <<251>>, <<3>>, <<>>, <<97,1>> }
Small == { Ref_FromInt(n) : n \in 0..SmallMax }
Pool == IF UseBig THEN Small \cup Big ELSE Small

(* Two phases so that TLC's workers share the pairs (initial states are evaluated by one thread). *)
Init == x = Zero /\ y = Zero /\ ph = 0
Next == \/ ph = 0 /\ x' \in Pool /\ y' = Zero /\ ph' = 1
        \/ ph = 1 /\ y' \in Pool /\ x' = x /\ ph' = 2

Shifts == {0, 1, 7, 8, 9, 63, 64, 65}
SmallE(e) == IF Ref_BitLen(e) > 6 THEN Ref_Mod2k(e, 6) ELSE e       \* keep reference ModPow affordable
Cheap(a) == Ref_BitLen(a) <= 72                                      \* bound for the quadratic reference algorithms

AgreeXY ==
  /\ IsNat(x) /\ IsNat(y)
  /\ Add(x, y) = Ref_Add(x, y)
  /\ Mul(x, y) = Ref_Mul(x, y)
  /\ Cmp(x, y) = Ref_Cmp(x, y)
  /\ (Ref_Cmp(x, y) >= 0 => Sub(x, y) = Ref_Sub(x, y))
  /\ (y # Zero /\ Cheap(x) /\ Cheap(y) =>
                  /\ Div(x, y) = Ref_Div(x, y)
                  /\ Mod(x, y) = Ref_Mod(x, y)
                  /\ Ref_Add(Ref_Mul(Ref_Div(x, y), y), Ref_Mod(x, y)) = x
                  /\ ModInv(x, y) = Ref_ModInv(x, y)
                  /\ ModPow(x, SmallE(y), y) = Ref_ModPow(x, SmallE(y), y))
  /\ And(x, y) = Ref_And(x, y) /\ Or(x, y) = Ref_Or(x, y) /\ Xor(x, y) = Ref_Xor(x, y)
  /\ (Cheap(x) /\ Cheap(y) => Gcd(x, y) = Ref_Gcd(x, y))
  /\ BitLen(x) = Ref_BitLen(x)
  /\ TrailingZeros(x) = Ref_TrailingZeros(x)
  /\ (Cheap(x) => ISqrt(x) = Ref_ISqrt(x))
  /\ \A s \in Shifts : /\ Shl(x, s) = Ref_Shl(x, s) /\ Shr(x, s) = Ref_Shr(x, s)
                       /\ Mod2k(x, s) = Ref_Mod2k(x, s) /\ Bit(x, s) = Ref_Bit(x, s)
                       /\ Pow2(s) = Ref_Pow2(s)
  /\ Cheap(x) => \A r \in {2, 3, 10, 16, 36} : /\ ToDigits(x, r) = Ref_ToDigits(x, r)
                                  /\ FromDigits(Ref_ToDigits(x, r), r) = x
                                  /\ Ref_FromDigits(Ref_ToDigits(x, r), r) = x
  /\ (Ref_BitLen(x) <= 30 => FromInt(Ref_ToInt(x)) = x /\ ToInt(x) = Ref_ToInt(x))
Agree == ph = 2 => AgreeXY
=============================================================================
