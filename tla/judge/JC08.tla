-------------------------------- MODULE JC08 --------------------------------
(* C08 — contract of the recorded events of this property (stub).           *)
EXTENDS BigNat

JudgeC08(e, rg) == FALSE
GhostC08(e, rg) == rg
=============================================================================
