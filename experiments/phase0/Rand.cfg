CONSTANTS W = 3
 NL = 2
