//! C09 recorder: modular exponentiation, multi-exponentiation and linear combinations on the three
//! Montgomery representations.
//! Event classes: `pow` (b, e, kk -> rt, mf), `mexp` (bs, es, kk -> rt), `lincomb` (xs, ys -> rt).
use vh::cb::modular::{BoxedMontyForm, BoxedMontyParams, ConstMontyForm, ConstMontyParams, MontyForm, MontyParams};
use vh::cb::{impl_modulus, Monty, MultiExponentiate, MultiExponentiateBoundedExp, Pow, PowBoundedExp, Uint, U1024, U128, U256, U64};
use vh::*;

fn modulus(r: &mut Rng, n: usize, which: usize) -> Vec<u64> {
    let mut m = match which % 10 {
        0 => fit(vec![1], n),
        1 => fit(vec![3], n),
        2 => vec![MAX; n],
        3 => { let mut v = vec![0; n]; v[n - 1] = TOP; v[0] |= 1; v }
        4 => vec![0x5555_5555_5555_5555; n],
        5 => { let mut v = vec![0; n]; v[n - 1] = 1 << 62; v[0] |= 1; v }
        6 => { let k = (n / 2).max(1); fit(nat_odd(r, k), n) }
        7 => { // a chosen number of leading zero bits in the top limb (lincomb window sizes)
            let lz = r.below(64); let mut v = uniform(r, n); v[n - 1] = (MAX >> lz) & !((MAX >> lz) >> 1) | (v[n - 1] & (MAX >> lz) >> 1); v }
        8 => uniform(r, n),
        _ => nat(r, n),
    };
    m[0] |= 1;
    m
}

/// moduli for the accumulation windows of lincomb: every class, plus 2^(BITS-lz) - 1 - 2d (just below a power of two)
fn lincomb_modulus(r: &mut Rng, n: usize, it: usize) -> Vec<u64> {
    if it % 4 == 1 {
        let lz = r.pick(&[0usize, 0, 1, 2, 3, 7, 31, 32, 62, 63]);
        let d = r.pick(&[0u64, 0, 1, 2, 5, 1000]);
        let top = vsub(&vpow2(64 * n - lz), &[1]);
        let mut m = if vcmp(&top, &[2 * d + 3]).is_gt() { fit(trim(vsub(&top, &[2 * d])), n) } else { fit(trim(top), n) };
        m[0] |= 1;
        return m;
    }
    modulus(r, n, it / 2)
}
/// a Montgomery representative below m, biased to the top of the range
fn rep_val(r: &mut Rng, m: &[u64], which: usize) -> Vec<u64> {
    let n = m.len();
    match which % 5 {
        0 | 1 => fit(vsub(m, &[1]), n),
        2 => if vcmp(m, &[2]).is_gt() { fit(vsub(m, &[2]), n) } else { vec![0; n] },
        3 => fit(vshr(m, 1), n),
        _ => below(r, m),
    }
}

fn base_val(r: &mut Rng, m: &[u64], which: usize) -> Vec<u64> {
    let n = m.len();
    match which % 7 {
        0 => vec![0; n],
        1 => fit(vec![1], n),
        2 => fit(vsub(m, &[1]), n),
        3 => fit(vec![2], n),
        4 => vec![MAX; n],          // not reduced
        _ => nat(r, n),
    }
}

/// a modulus with a repeated factor, m = s^2 (s odd, half the width), and the factor: multiples of s are nilpotent, so a
/// power, a product or a sum of products of them is exactly 0 mod m (an accumulator that ends exactly at the modulus)
fn nil_pair(r: &mut Rng, n: usize) -> (Vec<u64>, Vec<u64>) {
    let s = if n == 1 { vec![(r.next() >> 32) | 1] } else { let mut s = nat_odd(r, n / 2); if s.iter().all(|x| *x == 0) { s[0] = 3; } s };
    let s = trim(if r.chance(1, 4) { vec![r.pick(&[3u64, 5, 7, 0xffff_ffff])] } else { s });
    (fit(trim(vmul(&s, &s)), n), s)
}
fn nil_base(r: &mut Rng, s: &[u64], m: &[u64]) -> Vec<u64> {
    let t = if r.chance(1, 3) { vec![1u64] } else { let t = trim(below(r, s)); if t.is_empty() { vec![1] } else { t } };
    fit(trim(vmul(s, &t)), m.len())
}

fn exponent(r: &mut Rng, n: usize, which: usize) -> Vec<u64> {
    match which % 8 {
        0 => vec![0; n],
        1 => fit(vec![1], n),
        2 => { let b = r.below(64 * n); fit(trim(vpow2(b)), n) }
        3 => vec![MAX; n],
        4 => fit(vec![2], n),
        5 => uniform(r, n),
        _ => nat(r, n),
    }
}

/// exponent_bits values: exhaustive for narrow exponents, window/limb boundaries otherwise
fn kvals(r: &mut Rng, ebits: usize, exhaustive: bool) -> Vec<u32> {
    if exhaustive { return (0..=ebits as u32).collect(); }
    let mut v = vec![0, 1, 2, 3, 4, 5, ebits as u32, ebits as u32 - 1, ebits as u32 - 3, ebits as u32 - 4];
    for _ in 0..6 {
        let j = r.range(1, ebits / 4) as u32 * 4;
        v.extend([j - 1, j, (j + 1).min(ebits as u32)]);
        let l = r.range(1, ebits / 64) as u32 * 64;
        v.extend([l - 1, l, (l + 1).min(ebits as u32)]);
    }
    v.sort(); v.dedup(); v
}

fn pow_ev(form: &str, bits: usize, m: &[u64], b: &[u64], e: &[u64], ebits: usize, k: u32) -> Ev {
    Ev::new("pow", form).i("bits", bits as i64).n("m", m).n("b", b).n("e", e).i("eb", ebits as i64).i("kk", k as i64)
}

fn pow_dyn<const N: usize, const E: usize>(cx: &mut Cx, iters: usize, exhaustive_k: bool) {
    for it in 0..iters {
        let (m, s) = if it % 6 == 5 { nil_pair(&mut cx.rng, N) } else { (modulus(&mut cx.rng, N, it), vec![]) };
        let params = MontyParams::<N>::new_vartime(odd::<N>(&m).unwrap());
        let b = if s.is_empty() { base_val(&mut cx.rng, &m, it / 3) } else { nil_base(&mut cx.rng, &s, &m) };
        let e = exponent(&mut cx.rng, E, it / 2);
        let x = MontyForm::<N>::new(&u::<N>(&b), params);
        let ex = u::<E>(&e);
        let out = |r: MontyForm<N>| O::ok().n("rt", &w(&r.retrieve())).n("mf", &w(r.as_montgomery()));
        cx.call(pow_ev("MontyForm.pow", 64 * N, &m, &b, &e, 64 * E, 64 * E as u32), || out(x.pow(&ex)));
        cx.call(pow_ev("MontyForm.Pow", 64 * N, &m, &b, &e, 64 * E, 64 * E as u32), || out(Pow::pow(&x, &ex)));
        for k in kvals(&mut cx.rng, 64 * E, exhaustive_k && it % 4 == 0) {
            cx.call(pow_ev("MontyForm.pow_bounded_exp", 64 * N, &m, &b, &e, 64 * E, k), || out(x.pow_bounded_exp(&ex, k)));
            if k % 3 == 0 {
                cx.call(pow_ev("MontyForm.PowBoundedExp", 64 * N, &m, &b, &e, 64 * E, k), || out(PowBoundedExp::pow_bounded_exp(&x, &ex, k)));
            }
        }
    }
}

/// exponent wider than the modulus, every route, bounds up to the full exponent width, exponent bits set above the
/// modulus width (an exponent bound clamped to the base's width would ignore them)
fn pow_boxed_wide_exponent(cx: &mut Cx, iters: usize) {
    for it in 0..iters {
        let n = 1 + it % 3;
        let en = n + 1 + it % 2;
        let m = modulus(&mut cx.rng, n, it);
        let params = BoxedMontyParams::new_vartime(oddb(&m).unwrap());
        let b = base_val(&mut cx.rng, &m, it);
        let mut e = nat(&mut cx.rng, en); e[en - 1] |= 1 << 62; e[n] |= 5;
        let x = BoxedMontyForm::new(bx(&b), params);
        let ex = bx(&e);
        let out = |r: BoxedMontyForm| O::ok().n("rt", &wb(&r.retrieve())).n("mf", &wb(r.as_montgomery()));
        for k in [64 * en as u32, 64 * en as u32 - 1, 64 * n as u32 + 3, 64 * n as u32 + 1, 64 * n as u32] {
            cx.call(pow_ev("BoxedMontyForm.pow_bounded_exp", 64 * n, &m, &b, &e, 64 * en, k), || out(x.pow_bounded_exp(&ex, k)));
            cx.call(pow_ev("BoxedMontyForm.PowBoundedExp", 64 * n, &m, &b, &e, 64 * en, k), || out(PowBoundedExp::pow_bounded_exp(&x, &ex, k)));
        }
        cx.call(pow_ev("BoxedMontyForm.pow", 64 * n, &m, &b, &e, 64 * en, 64 * en as u32), || out(x.pow(&ex)));
    }
}

fn pow_boxed(cx: &mut Cx, iters: usize) {
    for it in 0..iters {
        let n = if cx.rng.chance(1, 6) { cx.rng.pick(&[16usize, 17]) } else { cx.rng.range(1, 8) };
        let en = if cx.rng.coin() { n } else { cx.rng.range(1, 5) };
        let (m, s) = if it % 5 == 4 { nil_pair(&mut cx.rng, n) } else { (modulus(&mut cx.rng, n, it), vec![]) };
        let params = if it % 2 == 0 { BoxedMontyParams::new(oddb(&m).unwrap()) } else { BoxedMontyParams::new_vartime(oddb(&m).unwrap()) };
        let b = if s.is_empty() { base_val(&mut cx.rng, &m, it / 3) } else { nil_base(&mut cx.rng, &s, &m) };
        let e = exponent(&mut cx.rng, en, it / 2);
        let x = BoxedMontyForm::new(bx(&b), params);
        let ex = bx(&e);
        let out = |r: BoxedMontyForm| O::ok().n("rt", &wb(&r.retrieve())).n("mf", &wb(r.as_montgomery()));
        cx.call(pow_ev("BoxedMontyForm.pow", 64 * n, &m, &b, &e, 64 * en, 64 * en as u32), || out(x.pow(&ex)));
        for k in kvals(&mut cx.rng, 64 * en, en == 1 && it % 8 == 0) {
            cx.call(pow_ev("BoxedMontyForm.pow_bounded_exp", 64 * n, &m, &b, &e, 64 * en, k), || out(x.pow_bounded_exp(&ex, k)));
            if k % 3 == 0 {
                cx.call(pow_ev("BoxedMontyForm.PowBoundedExp", 64 * n, &m, &b, &e, 64 * en, k), || out(PowBoundedExp::pow_bounded_exp(&x, &ex, k)));
            }
        }
    }
}

/// The second of the two final conditional subtractions of the boxed ladder is needed only when the last window
/// multiplication leaves floor(z/m) = 2: moduli with exactly one leading zero bit just below 2^(BITS-1), about one
/// call in 2 000-4 000 (measured).  Volume on one- and two-limb moduli, where a call costs microseconds.
fn pow_boxed_double_reduction(cx: &mut Cx, iters: usize) {
    for it in 0..iters {
        let n = 1 + (it % 8 == 7) as usize;
        let mut m = nat(&mut cx.rng, n);
        let top = n - 1;
        // top limb in [0.45, 0.5) * 2^64
        m[top] = (m[top] % 0x0ccc_cccc_cccc_cccc) + 0x7333_3333_3333_3333;
        m[0] |= 1;
        let params = BoxedMontyParams::new_vartime(oddb(&m).unwrap());
        let b = below(&mut cx.rng, &m);
        let sh = cx.rng.below(48) as u32;
        let e = vec![cx.rng.next() >> sh];
        let x = BoxedMontyForm::new(bx(&fit(b.clone(), n)), params);
        let ex = bx(&e);
        cx.call(pow_ev("BoxedMontyForm.pow.volume", 64 * n, &m, &b, &e, 64, 64), || { let r = x.pow(&ex); O::ok().n("rt", &wb(&r.retrieve())).n("mf", &wb(r.as_montgomery())) });
    }
}

impl_modulus!(C64Three, U64, "0000000000000003");
impl_modulus!(C64Top, U64, "8000000000000001");
impl_modulus!(C128Third, U128, "55555555555555555555555555555555");
impl_modulus!(C256P256N, U256, "ffffffff00000000ffffffffffffffffbce6faada7179e84f3b9cac2fc632551");
impl_modulus!(C256Small, U256, "0000000000000000000000000000000000000000000000010000000000000fff");
impl_modulus!(C1024A, U1024, "fb0e7153bf7c3706d85c524e440066559a6656c90bd5482a90a29b9fa5ff5180bc0dbc0e15637ebb8e3b91d26ab4a829a95249f512c17b8ed411fa644d35db41d94e5efaf89fc43c5fa52f8b2b19b8f89a50f8a8e9bb8bdb5eba456bf92d5d98065e5751f75143a5f61debc267b0bc8d3b1939a9b4ddbe45cf642b0c3a4acddb");

macro_rules! pow_const {
    ($cx:expr, $M:ty, $N:literal, $E:literal, $iters:expr, $exh:expr) => {{
        type F = ConstMontyForm<$M, $N>;
        let m = w(&<$M as ConstMontyParams<$N>>::MODULUS.get());
        for it in 0..$iters {
            let b = base_val(&mut $cx.rng, &m, it);
            let e = exponent(&mut $cx.rng, $E, it / 2);
            let x = F::new(&u::<$N>(&b));
            let ex = u::<$E>(&e);
            let out = |r: F| O::ok().n("rt", &w(&r.retrieve())).n("mf", &w(r.as_montgomery()));
            $cx.call(pow_ev("ConstMontyForm.pow", 64 * $N, &m, &b, &e, 64 * $E, 64 * $E as u32), || out(x.pow(&ex)));
            $cx.call(pow_ev("ConstMontyForm.Pow", 64 * $N, &m, &b, &e, 64 * $E, 64 * $E as u32), || out(Pow::pow(&x, &ex)));
            for k in kvals(&mut $cx.rng, 64 * $E, $exh && it % 4 == 0) {
                $cx.call(pow_ev("ConstMontyForm.pow_bounded_exp", 64 * $N, &m, &b, &e, 64 * $E, k), || out(x.pow_bounded_exp(&ex, k)));
                if k % 3 == 0 {
                    $cx.call(pow_ev("ConstMontyForm.PowBoundedExp", 64 * $N, &m, &b, &e, 64 * $E, k), || out(PowBoundedExp::pow_bounded_exp(&x, &ex, k)));
                }
            }
            // multi-exponentiation with two and three bases (arrays and slices)
            let b2 = base_val(&mut $cx.rng, &m, it + 5);
            let e2 = exponent(&mut $cx.rng, $E, it + 3);
            let (x2, ex2) = (F::new(&u::<$N>(&b2)), u::<$E>(&e2));
            let k = *kvals(&mut $cx.rng, 64 * $E, false).get(it % 7).unwrap_or(&(64 * $E as u32));
            let mev = |form: &str, kk: u32| Ev::new("mexp", form).i("bits", 64 * $N).n("m", &m).nl("bs", &[b.clone(), b2.clone()]).nl("es", &[e.clone(), e2.clone()]).i("eb", 64 * $E).i("kk", kk as i64);
            $cx.call(mev("ConstMontyForm.multi_exponentiate.array", 64 * $E as u32), || { let r = F::multi_exponentiate(&[(x, ex), (x2, ex2)]); O::ok().n("rt", &w(&r.retrieve())) });
            $cx.call(mev("ConstMontyForm.multi_exponentiate_bounded_exp.array", k), || { let r = F::multi_exponentiate_bounded_exp(&[(x, ex), (x2, ex2)], k); O::ok().n("rt", &w(&r.retrieve())) });
            $cx.call(mev("ConstMontyForm.multi_exponentiate_bounded_exp.slice", k), || { let v = vec![(x, ex), (x2, ex2)]; let r = F::multi_exponentiate_bounded_exp(v.as_slice(), k); O::ok().n("rt", &w(&r.retrieve())) });
            // linear combination
            let terms = 1 + (it * 7) % 40;
            let xs: Vec<Vec<u64>> = (0..terms).map(|j| base_val(&mut $cx.rng, &m, it + j)).collect();
            let ys: Vec<Vec<u64>> = (0..terms).map(|j| base_val(&mut $cx.rng, &m, it + 2 * j + 1)).collect();
            let pairs: Vec<(F, F)> = xs.iter().zip(ys.iter()).map(|(a, b)| (F::new(&u::<$N>(a)), F::new(&u::<$N>(b)))).collect();
            $cx.call(Ev::new("lincomb", "ConstMontyForm.lincomb_vartime").i("bits", 64 * $N).n("m", &m).nl("xs", &xs).nl("ys", &ys), || { let r = F::lincomb_vartime(&pairs); O::ok().n("rt", &w(&r.retrieve())).n("mf", &w(r.as_montgomery())) });
        }
    }};
}

fn mexp_dyn<const N: usize, const E: usize>(cx: &mut Cx, iters: usize) {
    for it in 0..iters {
        let (m, s) = if it % 7 == 6 { nil_pair(&mut cx.rng, N) } else { (modulus(&mut cx.rng, N, it), vec![]) };
        let params = MontyParams::<N>::new_vartime(odd::<N>(&m).unwrap());
        let cnt = 1 + it % 4;
        let bs: Vec<Vec<u64>> = (0..cnt).map(|j| if s.is_empty() { base_val(&mut cx.rng, &m, it + j) } else { nil_base(&mut cx.rng, &s, &m) }).collect();
        let es: Vec<Vec<u64>> = (0..cnt).map(|j| exponent(&mut cx.rng, E, it + j)).collect();
        let pairs: Vec<(MontyForm<N>, Uint<E>)> = bs.iter().zip(es.iter()).map(|(b, e)| (MontyForm::new(&u::<N>(b), params), u::<E>(e))).collect();
        let ks = kvals(&mut cx.rng, 64 * E, false);
        let k = ks[it % ks.len()];
        let mev = |form: &str, kk: u32| Ev::new("mexp", form).i("bits", 64 * N as i64).n("m", &m).nl("bs", &bs).nl("es", &es).i("eb", 64 * E as i64).i("kk", kk as i64);
        cx.call(mev("MontyForm.multi_exponentiate.slice", 64 * E as u32), || { let r = MontyForm::<N>::multi_exponentiate(pairs.as_slice()); O::ok().n("rt", &w(&r.retrieve())) });
        cx.call(mev("MontyForm.multi_exponentiate_bounded_exp.slice", k), || { let r = MontyForm::<N>::multi_exponentiate_bounded_exp(pairs.as_slice(), k); O::ok().n("rt", &w(&r.retrieve())) });
        if cnt == 2 {
            let arr = [pairs[0], pairs[1]];
            cx.call(mev("MontyForm.multi_exponentiate_bounded_exp.array", k), || { let r = MontyForm::<N>::multi_exponentiate_bounded_exp(&arr, k); O::ok().n("rt", &w(&r.retrieve())) });
            cx.call(mev("MontyForm.multi_exponentiate.array", 64 * E as u32), || { let r = MontyForm::<N>::multi_exponentiate(&arr); O::ok().n("rt", &w(&r.retrieve())) });
        }
    }
}

fn lincomb_dyn<const N: usize>(cx: &mut Cx, iters: usize) {
    for it in 0..iters {
        let (m, s) = if it % 8 == 7 { nil_pair(&mut cx.rng, N) } else { (lincomb_modulus(&mut cx.rng, N, it), vec![]) };
        let params = MontyParams::<N>::new_vartime(odd::<N>(&m).unwrap());
        let terms = 1 + (it * 3) % 40;
        let (fx, fy): (Vec<MontyForm<N>>, Vec<MontyForm<N>>) = if !s.is_empty() {
            // every product is 0 mod m
            ((0..terms).map(|_| MontyForm::new(&u::<N>(&nil_base(&mut cx.rng, &s, &m)), params)).collect(),
             (0..terms).map(|_| MontyForm::new(&u::<N>(&nil_base(&mut cx.rng, &s, &m)), params)).collect())
        } else if it % 3 == 0 {
            // representatives chosen directly (near m-1: maximal accumulator carries), values read back
            ((0..terms).map(|j| MontyForm::from_montgomery(u::<N>(&rep_val(&mut cx.rng, &m, it + j)), params)).collect(),
             (0..terms).map(|j| MontyForm::from_montgomery(u::<N>(&rep_val(&mut cx.rng, &m, it + 2 * j)), params)).collect())
        } else {
            ((0..terms).map(|j| MontyForm::new(&u::<N>(&base_val(&mut cx.rng, &m, it + j)), params)).collect(),
             (0..terms).map(|j| MontyForm::new(&u::<N>(&base_val(&mut cx.rng, &m, it + 2 * j + 1)), params)).collect())
        };
        let xs: Vec<Vec<u64>> = fx.iter().map(|f| w(&f.retrieve())).collect();
        let ys: Vec<Vec<u64>> = fy.iter().map(|f| w(&f.retrieve())).collect();
        let pairs: Vec<(&MontyForm<N>, &MontyForm<N>)> = fx.iter().zip(fy.iter()).collect();
        let ev = |form: &str| Ev::new("lincomb", form).i("bits", 64 * N as i64).n("m", &m).nl("xs", &xs).nl("ys", &ys);
        cx.call(ev("MontyForm.lincomb_vartime"), || { let r = MontyForm::<N>::lincomb_vartime(&pairs); O::ok().n("rt", &w(&r.retrieve())).n("mf", &w(r.as_montgomery())) });
        cx.call(ev("MontyForm.Monty.lincomb_vartime"), || { let r = <MontyForm<N> as Monty>::lincomb_vartime(&pairs); O::ok().n("rt", &w(&r.retrieve())).n("mf", &w(r.as_montgomery())) });
    }
}

fn lincomb_boxed(cx: &mut Cx, iters: usize) {
    for it in 0..iters {
        let n = cx.rng.range(1, 9);
        let (m, s) = if it % 8 == 7 { nil_pair(&mut cx.rng, n) } else { (lincomb_modulus(&mut cx.rng, n, it), vec![]) };
        let params = BoxedMontyParams::new_vartime(oddb(&m).unwrap());
        let terms = 1 + (it * 3) % 40;
        let (fx, fy): (Vec<BoxedMontyForm>, Vec<BoxedMontyForm>) = if !s.is_empty() {
            ((0..terms).map(|_| BoxedMontyForm::new(bx(&nil_base(&mut cx.rng, &s, &m)), params.clone())).collect(),
             (0..terms).map(|_| BoxedMontyForm::new(bx(&nil_base(&mut cx.rng, &s, &m)), params.clone())).collect())
        } else if it % 3 == 0 {
            ((0..terms).map(|j| BoxedMontyForm::from_montgomery(bx(&rep_val(&mut cx.rng, &m, it + j)), params.clone())).collect(),
             (0..terms).map(|j| BoxedMontyForm::from_montgomery(bx(&rep_val(&mut cx.rng, &m, it + 2 * j)), params.clone())).collect())
        } else {
            ((0..terms).map(|j| BoxedMontyForm::new(bx(&base_val(&mut cx.rng, &m, it + j)), params.clone())).collect(),
             (0..terms).map(|j| BoxedMontyForm::new(bx(&base_val(&mut cx.rng, &m, it + 2 * j + 1)), params.clone())).collect())
        };
        let xs: Vec<Vec<u64>> = fx.iter().map(|f| wb(&f.retrieve())).collect();
        let ys: Vec<Vec<u64>> = fy.iter().map(|f| wb(&f.retrieve())).collect();
        let pairs: Vec<(&BoxedMontyForm, &BoxedMontyForm)> = fx.iter().zip(fy.iter()).collect();
        let ev = |form: &str| Ev::new("lincomb", form).i("bits", 64 * n as i64).n("m", &m).nl("xs", &xs).nl("ys", &ys);
        cx.call(ev("BoxedMontyForm.lincomb_vartime"), || { let r = BoxedMontyForm::lincomb_vartime(&pairs); O::ok().n("rt", &wb(&r.retrieve())).n("mf", &wb(r.as_montgomery())) });
        cx.call(ev("BoxedMontyForm.Monty.lincomb_vartime"), || { let r = <BoxedMontyForm as Monty>::lincomb_vartime(&pairs); O::ok().n("rt", &wb(&r.retrieve())).n("mf", &wb(r.as_montgomery())) });
    }
}

/// The accumulation limit of the interleaved sum of products is 2^leading_zeros terms per window.  Directed family:
/// modulus 2^(BITS - lz) - d (d small, odd result), term counts around the limit (2^lz - 1 .. 2^(lz+1)), every
/// representative equal to m - 1 (maximal products), so that one term too many in a window overflows the accumulator.
fn lincomb_window_limit(cx: &mut Cx) {
    for n in [1usize, 2, 4] {
        for lz in 1usize..=5 {
            let m = { let mut v = vsub(&vpow2(64 * n - lz), &[1 + 2 * cx.rng.below(4) as u64]); v[0] |= 1; fit(v, n) };
            let top = vsub(&m, &[1]);
            for terms in [(1usize << lz) - 1, 1 << lz, (1 << lz) + 1, (3 << lz) / 2, (1 << (lz + 1)) - 1, 1 << (lz + 1), (1 << (lz + 1)) + 1] {
                if terms == 0 || terms > 70 { continue; }
                let xs: Vec<Vec<u64>> = (0..terms).map(|_| top.clone()).collect();
                let ev = |form: &str| Ev::new("lincomb", form).i("bits", 64 * n as i64).n("m", &m).nl("xs", &xs).nl("ys", &xs);
                {
                    let params = BoxedMontyParams::new_vartime(oddb(&m).unwrap());
                    let f: Vec<BoxedMontyForm> = (0..terms).map(|_| BoxedMontyForm::new(bx(&top), params.clone())).collect();
                    let pairs: Vec<(&BoxedMontyForm, &BoxedMontyForm)> = f.iter().zip(f.iter()).collect();
                    cx.call(ev("BoxedMontyForm.lincomb_vartime"), || { let r = BoxedMontyForm::lincomb_vartime(&pairs); O::ok().n("rt", &wb(&r.retrieve())).n("mf", &wb(r.as_montgomery())) });
                }
                macro_rules! fixed { ($N:literal) => {{
                    let params = MontyParams::<$N>::new_vartime(odd::<$N>(&m).unwrap());
                    let f: Vec<MontyForm<$N>> = (0..terms).map(|_| MontyForm::new(&u::<$N>(&top), params)).collect();
                    let pairs: Vec<(&MontyForm<$N>, &MontyForm<$N>)> = f.iter().zip(f.iter()).collect();
                    cx.call(ev("MontyForm.lincomb_vartime"), || { let r = MontyForm::<$N>::lincomb_vartime(&pairs); O::ok().n("rt", &w(&r.retrieve())).n("mf", &w(r.as_montgomery())) });
                }}; }
                match n { 1 => fixed!(1), 2 => fixed!(2), _ => fixed!(4) }
            }
        }
    }
}

fn main() {
    let mut cx = Cx::from_args("C09");
    let s = cx.scale;
    if cx.want("powdyn") {
        pow_dyn::<1, 1>(&mut cx, 24 * s, true);
        pow_dyn::<2, 2>(&mut cx, 16 * s, true);
        pow_dyn::<2, 1>(&mut cx, 8 * s, true);
        pow_dyn::<1, 2>(&mut cx, 8 * s, true);
        pow_dyn::<4, 4>(&mut cx, 24 * s, false);
        pow_dyn::<4, 1>(&mut cx, 10 * s, false);
        pow_dyn::<4, 8>(&mut cx, 6 * s, false);
        pow_dyn::<8, 8>(&mut cx, 8 * s, false);
        pow_dyn::<16, 16>(&mut cx, 2 * s, false);
        pow_dyn::<16, 2>(&mut cx, 3 * s, false);
    }
    if cx.want("powboxed") { pow_boxed(&mut cx, 70 * s); pow_boxed_wide_exponent(&mut cx, 12 * s); }
    if cx.want("lincomblimit") { lincomb_window_limit(&mut cx); }
    if cx.want("powvolume") { pow_boxed_double_reduction(&mut cx, 40_000 * s.min(5)); }
    if cx.want("const") {
        pow_const!(cx, C64Three, 1, 1, 8 * s, true);
        pow_const!(cx, C64Top, 1, 2, 8 * s, true);
        pow_const!(cx, C128Third, 2, 2, 8 * s, true);
        pow_const!(cx, C256P256N, 4, 4, 12 * s, false);
        pow_const!(cx, C256Small, 4, 1, 8 * s, false);
        pow_const!(cx, C1024A, 16, 4, 2 * s, false);
    }
    if cx.want("mexp") {
        mexp_dyn::<1, 1>(&mut cx, 40 * s);
        mexp_dyn::<2, 2>(&mut cx, 40 * s);
        mexp_dyn::<4, 4>(&mut cx, 30 * s);
        mexp_dyn::<4, 2>(&mut cx, 20 * s);
        mexp_dyn::<8, 8>(&mut cx, 8 * s);
    }
    if cx.want("lincomb") {
        lincomb_dyn::<1>(&mut cx, 80 * s);
        lincomb_dyn::<2>(&mut cx, 80 * s);
        lincomb_dyn::<4>(&mut cx, 80 * s);
        lincomb_dyn::<8>(&mut cx, 40 * s);
        lincomb_dyn::<16>(&mut cx, 20 * s);
        lincomb_boxed(&mut cx, 120 * s);
    }
    cx.finish();
}
