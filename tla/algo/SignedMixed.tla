----------------------------- MODULE SignedMixed -----------------------------
(***************************************************************************)
(* Signed multiplication with operands of DIFFERENT widths and with an     *)
(* unsigned right operand, as Int computes it (src/int/mul.rs 9-88,        *)
(* src/int/mul_uint.rs 10-78): magnitudes and signs are split, the         *)
(* magnitudes multiplied into (lo, hi) with lo as wide as the LEFT operand *)
(* of split_mul (the receiver, or the Uint for the `_right` forms), the    *)
(* low part re-signed through new_from_abs_sign of THAT width, and the     *)
(* result is some exactly when hi = 0 and the re-signed value fits.        *)
(* Patterns are numbers in 0..2^bits-1.  For ALL pairs:                    *)
(*   checked_mul (Int<L> x Int<R> -> Int<L>, Int<L> x Uint<R> -> Int<L>),  *)
(*   checked_mul_uint_right (Int<L> x Uint<R> -> Int<R>): some iff the     *)
(*       product fits the RESULT width, then its pattern;                  *)
(*   widening_mul / widening_mul_uint: the (L+R)-bit pattern of the        *)
(*       product, always;                                                  *)
(*   split_mul: (lo, hi, negate) denote the product: sign-magnitude.       *)
(***************************************************************************)
EXTENDS Integers, TLC
CONSTANTS LB, RB
P2(n) == 2 ^ n
Val(p, n) == IF p >= P2(n - 1) THEN p - P2(n) ELSE p
Pat(v, n) == ((v % P2(n)) + P2(n)) % P2(n)
InRange(v, n) == v >= 0 - P2(n - 1) /\ v <= P2(n - 1) - 1
Abs(v) == IF v < 0 THEN 0 - v ELSE v
AbsSign(p, n) == <<IF p >= P2(n - 1) THEN (P2(n) - p) % P2(n) ELSE p, p >= P2(n - 1)>>
NewFromAbsSign(mag, neg, n) == <<IF neg THEN (P2(n) - mag) % P2(n) ELSE mag, (mag <= P2(n - 1) - 1) \/ (neg /\ mag = P2(n - 1))>>

SplitMul(a, b) ==                                             \* Int<L> x Int<R>: lo has L bits, hi has R bits
  LET x == AbsSign(a, LB) y == AbsSign(b, RB) prod == x[1] * y[1]
  IN <<prod % P2(LB), prod \div P2(LB), x[2] # y[2]>>
CheckedMul(a, b) == LET s == SplitMul(a, b) r == NewFromAbsSign(s[1], s[3], LB) IN <<r[1], s[2] = 0 /\ r[2]>>
WideningMul(a, b) == LET x == AbsSign(a, LB) y == AbsSign(b, RB) prod == x[1] * y[1]
                     IN IF x[2] # y[2] THEN (P2(LB + RB) - prod) % P2(LB + RB) ELSE prod
SplitMulUint(a, u) == LET x == AbsSign(a, LB) prod == x[1] * u IN <<prod % P2(LB), prod \div P2(LB), x[2]>>
CheckedMulUint(a, u) == LET s == SplitMulUint(a, u) r == NewFromAbsSign(s[1], s[3], LB) IN <<r[1], s[2] = 0 /\ r[2]>>
SplitMulUintRight(a, u) == LET x == AbsSign(a, LB) prod == u * x[1] IN <<prod % P2(RB), prod \div P2(RB), x[2]>>   \* lo has R bits
CheckedMulUintRight(a, u) == LET s == SplitMulUintRight(a, u) r == NewFromAbsSign(s[1], s[3], RB) IN <<r[1], s[2] = 0 /\ r[2]>>
WideningMulUint(a, u) == LET x == AbsSign(a, LB) prod == x[1] * u IN IF x[2] THEN (P2(LB + RB) - prod) % P2(LB + RB) ELSE prod

VARIABLES a, b
Init == a \in 0..P2(LB) - 1 /\ b \in 0..P2(RB) - 1
Next == UNCHANGED <<a, b>>
Spec == Init /\ [][Next]_<<a, b>>
va == Val(a, LB)
vb == Val(b, RB)
CheckedOK  == LET r == CheckedMul(a, b) IN r[2] = InRange(va * vb, LB) /\ (r[2] => r[1] = Pat(va * vb, LB))
WideningOK == WideningMul(a, b) = Pat(va * vb, LB + RB) /\ InRange(va * vb, LB + RB)
SplitOK    == LET s == SplitMul(a, b) IN s[1] + s[2] * P2(LB) = Abs(va * vb) /\ s[2] < P2(RB) /\ (va * vb < 0 => s[3])
UintOK     == LET r == CheckedMulUint(a, b) IN r[2] = InRange(va * b, LB) /\ (r[2] => r[1] = Pat(va * b, LB))
UintRightOK == LET r == CheckedMulUintRight(a, b) IN r[2] = InRange(va * b, RB) /\ (r[2] => r[1] = Pat(va * b, RB))
WideningUintOK == WideningMulUint(a, b) = Pat(va * b, LB + RB) /\ InRange(va * b, LB + RB)
=============================================================================
