SPECIFICATION Spec
CONSTANTS W = 3
 Mode = "school"
 SIZE = 4
 BASE = 1
 MAXRED = 1
INVARIANT Exact
INVARIANT RefOK
CHECK_DEADLOCK FALSE
