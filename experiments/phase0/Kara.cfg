SPECIFICATION Spec
CONSTANTS W = 2
 SIZE = 4
 BASE = 1
INVARIANT Exact
CHECK_DEADLOCK FALSE
