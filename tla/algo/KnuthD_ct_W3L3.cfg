SPECIFICATION Spec
CONSTANTS W = 3
 L = 3
 YC = 3
 Mode = "ct"
INVARIANT Exact
INVARIANT PreHolds
INVARIANT PreHoldsEverywhere
CHECK_DEADLOCK FALSE
